#!/usr/bin/env python3
"""Regenerates MANIFEST.json from the table below (kept next to ./check's PROPS)."""
import json
import subprocess

HOOK_COMMITS = ["71545ac", "f9d1151", "a47bd24", "044d619", "e87af80", "ebda283"]

TECH = "deterministic simulation with fault injection: seeded search over plans, schedules and fault sequences"

CHECKS = {
    "C01": ("B", "5 C01", "whole pipeline (Cucumber::custom + runner::Basic + writer zoo incl. Summarize/Libtest/Tee/Or/FailOnSkipped/Repeat) driven by the simulator; the verdict read by filter_run_and_exit, its panic and the libtest suite line are compared with a verdict computed from the raw event stream tapped between runner and writers"),
    "C02": ("A", "5 C02", "every attempt of every simulated run is compared with the sequential reference interpreter's canonical event list, under interleaving with other attempts and injected panics / World failures / undefined / ambiguous steps"),
    "C03": ("A", "5 C03", "framing invariants over the raw stream of every simulated run: lazy parser, parser errors, retries straddling bracket decisions, fail-fast closing half-run brackets"),
    "C04": ("A", "5 C04", "set of started scenarios vs. what the simulated parser handed over; bounded liveness: the executor reports deadlock (lost wake-up), livelock, a spin inside one poll (idle_tick hook) or poll-cap overrun; a quarter of the plans run under fail-fast (late features and delayed retries arriving after the trip)"),
    "C05": ("A", "5 C05", "per-scenario attempt chains checked for numbering, re-run-iff-failed-within-budget, non-overlap, fresh World and the retry delay in virtual time (events and user-callback stamps); other scenarios must keep running while a retry waits for its delay (quiescent-point work conservation); a panic escaping the runner is a lost retry"),
    "C06": ("A", "5 C06", "in-flight count on every prefix of the stream and over user-callback intervals; work conservation evaluated at quiescent points of the simulated executor after each completion"),
    "C07": ("A", "5 C07", "isolation window of every serial attempt checked against the event stream and the user-callback log, with serial scenarios becoming ready while others run (delayed retries, late features, simultaneous completions)"),
    "C08": ("A", "5 C08", "position of the first final failure vs. later dispatches: no attempt is handed to the executor (dispatch probe, hook H5, stamped with the virtual clock) once the failing attempt's Finished event exists; clean closing of brackets, parser-error cut-off, plus a fail-fast on/off differential on failure-free plans"),
    "C09": ("A", "5 C09", "instrumented World (id, mutation counter, callback trail) and hooks: trails matched as a multiset against the attempts of the event stream, after-hook argument vs. modelled outcome; attempts cut short by a panic escaping the runner owe their after hook"),
    "C10": ("A", "5 C10", "every injected fault carries a unique token that must surface in exactly one Failed event of the right kind with its payload; counting panic hook during the run and hook-restoration probe after it"),
    "C11": ("C", "5 C11", "real Normalize fed with synthetic contract-abiding histories from abstract concurrent emitters (incl. orders runner::Basic never produces), slow inner writer; losslessness, immediate forwarding, maximal progress after every call, final shape"),
    "C12": ("C", "5 C12", "real Summarize (alone, inside Repeat of failed / skipped / everything incl. run-Finished, inside FailOnSkipped, outside Normalize) fed with synthetic histories; all getters, steps/scenarios stats and the parsed summary text compared with an independent fold over the stream the inner writer received"),
    "C13": ("C", "5 C13", "real FailOnSkipped / Repeat (built-in filters, a custom one, one selecting everything) / Tee / Or and nestings fed with contract-abiding and arbitrary (shuffled, truncated, duplicated) streams; recording inner writers (independently slow on each side)"),
    "C14": ("R", "5 C14", "the four real reporters behind the real Normalize, fed with synthetic contract-abiding histories (names with quotes, markup, backslashes, non-ASCII; path-less features; retries; hook failures; parser errors; reporter options) and writing into a sink with short writes and EINTR; the output is parsed back (line / JSON / XML readers) and the multiset of facts compared with the facts of the stream, plus libtest started/result pairing, totals and verdict; the plain writer's terminal mode (Coloring::Always) is run through a terminal emulator and the final screen must equal the non-terminal output; in the tracing build the histories carry Log events (Basic / JUnit system-out / JSON embeddings checked); same-named features (nested paths), rules and scenarios, position-less features"),
    "C20": ("T", "5 C20", "real tracing integration (global subscriber, Collector, span-close handshake) with 1-8 scenarios logging concurrently before and after await points, retries, slow and failing callbacks; one simulated run per process; each emitted token (also from a logging World constructor, a nested user span, structured fields, bursts) must arrive exactly once as a Log event of the emitting attempt between the emitter's Started and result events; half of the runs poll the pipeline inside a span of the caller, a third have a writer that logs through tracing itself; in half of the plans helpers outlive callbacks: they keep the callback's span open, log once more (on the simulator's thread or on a real helper OS thread run in strict hand-off) and only then let it close - the result event must wait for that"),
}

NOT_APPLICABLE = {
    "C15": "pure function of (features, filter): no schedule, clock, I/O or fault dimension for a simulator to own; deciding it would be input generation dressed as simulation (DESIGN.md section 6)",
    "C16": "outline expansion is string rewriting over a parsed feature; no time, order or fault dimension (DESIGN.md section 6)",
    "C17": "Collection::find is a pure function of (definitions, step); registration order is input permutation, not scheduling (DESIGN.md section 6)",
    "C18": "retry/CLI option resolution is a pure function over a product space (the property says so itself) (DESIGN.md section 6)",
    "C19": "proc-macro expansion, decided at compile time over a zoo of programs; nothing to simulate (DESIGN.md section 6)",
}

PENDING = {
}


def main():
    import importlib.util, os
    here = os.path.dirname(os.path.abspath(__file__))
    claimed = sorted(CHECKS)
    na = dict(NOT_APPLICABLE)
    for k, v in PENDING.items():
        if k not in CHECKS:
            na[k] = v
    checks = []
    for pid in claimed:
        world, ref, text = CHECKS[pid]
        checks.append({
            "property_id": pid,
            "quick_cmd": f"./check {pid} quick",
            "thorough_cmd": f"./check {pid} thorough",
            "evidence_file": f"/verif/evidence/{pid}.json",
            "replay_cmd_template": "./check --replay {path}",
            "engine": "cucumber-sim",
            "level_claimed": {
                "category": "exploration",
                "text": text + (". Quick tier: plain build, the tracing build (cfg-gated paths) and, for C02-C10, runs with the tracing collector installed on plans whose user code logs" if world in ("A", "B") else "") + ". Seeded sampling, not enumeration: a clean batch is evidence, not proof; every violation is shrunk and replays exactly from its file.",
                "design_ref": "DESIGN.md section " + ref,
            },
            "level_note": "trusted base: the simulator (sim/src/core.rs), the reference model and oracles (sim/src/model.rs, oracle_*.rs, worldc.rs), the add-only hooks H1-H5; not simulated: clap argv parsing, parser::Basic file walking, the real sleeper thread, terminal detection",
            "technique": TECH,
        })
    m = {
        "version": 1,
        "setup_cmd": "./check setup",
        "hooks": {
            "guard": "cucumber_rs_cucumber_verif",
            "enable": "rustc --cfg cucumber_rs_cucumber_verif, set via [build] rustflags in /verif/sim/.cargo/config.toml; the harness crate /verif/sim depends on /repo by path, so every check rebuilds /repo's working tree with the hooks on",
            "baseline_off_cmd": "cd /repo && cargo test --workspace --no-fail-fast --offline",
            "source_commits": HOOK_COMMITS,
            "add_only": True,
        },
        "engines": [{
            "name": "cucumber-sim",
            "path": "/verif/sim",
            "serves_properties": claimed,
            "kind_free_text": "hand-written single-threaded discrete-event simulator (a quarter of the runner-world plans run through the Cucumber builder and filter_run instead of polling runner::Basic directly) (virtual clock, timer heap, seeded scheduler, fault plans) driving the real crate through its Parser / Runner / Writer / World seams plus five cfg-guarded hooks; python3 driver ./check fans out 16 worker processes, shrinks and replays",
        }],
        "checks": checks,
        "not_applicable": [{"property_id": k, "reason": v} for k, v in sorted(na.items())],
        "notes": "Exit 2 = harness/build error. known_findings.json lists genuine defects recorded rather than repaired (printed as KNOWN-FINDING lines) and the 'fixed:' records of repaired ones.",
    }
    with open(os.path.join(here, "MANIFEST.json"), "w") as f:
        json.dump(m, f, indent=1)
    print("MANIFEST.json:", len(checks), "checks,", len(na), "not applicable")


if __name__ == "__main__":
    main()
