fn main() {
    let t = "@a\nFeature: X\n\n  Background:\n    Given bg\n\n  Scenario Outline: s <v>\n    When st <v>\n      \"\"\"\n      doc\n      \"\"\"\n\n    Examples:\n      | v |\n      | 1 |\n\n  Rule: r\n    Scenario: q\n      Then z\n";
    let f = cucumber::gherkin::Feature::parse(t, cucumber::gherkin::GherkinEnv::default()).unwrap();
    println!("{f:#?}");
}
