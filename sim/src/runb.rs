//! World B: the whole pipeline — `Cucumber::custom(SimParser, Tap<runner::Basic>, <writer stack>)`
//! `.with_cli(opts).filter_run_and_exit(..)` — polled by the simulator.

use std::{
    cell::{Cell, RefCell},
    collections::BTreeMap,
    io,
    rc::Rc,
};

use cucumber::{
    Cucumber, Event, Runner, Writer, WriterExt as _, cli, event, parser,
    writer::{self, Coloring, Stats as _},
};
use futures::StreamExt as _;
use serde::{Deserialize, Serialize};

use crate::{
    core::{self, Rng, RunEnd, SchedStats, SimCore},
    parser::{ParserLog, SimParser, SimParserStream},
    plan::Plan,
    record::{Ev, Recorder},
    runa::{self, SimRunner},
    world::{self, CbEntry, SimWorld},
};

// ---------------------------------------------------------------------------------------------
// Faulty sink

#[derive(Default)]
pub struct SinkStats {
    pub short_writes: Cell<u64>,
    pub interrupts: Cell<u64>,
    pub writes: Cell<u64>,
}

/// `io::Write` sink with short writes and `ErrorKind::Interrupted` (both must be invisible).
pub struct Sink {
    pub buf: Rc<RefCell<Vec<u8>>>,
    rng: Rng,
    short_pm: u32,
    eintr_pm: u32,
    pub stats: Rc<SinkStats>,
}

impl Sink {
    pub fn new(seed: u64, short_pm: u32, eintr_pm: u32, stats: &Rc<SinkStats>) -> (Self, Rc<RefCell<Vec<u8>>>) {
        let buf = Rc::new(RefCell::new(Vec::new()));
        (Self { buf: Rc::clone(&buf), rng: Rng::new(seed), short_pm, eintr_pm, stats: Rc::clone(stats) }, buf)
    }
}

impl io::Write for Sink {
    fn write(&mut self, b: &[u8]) -> io::Result<usize> {
        self.stats.writes.set(self.stats.writes.get() + 1);
        if b.is_empty() {
            return Ok(0);
        }
        if self.eintr_pm > 0 && self.rng.chance(u64::from(self.eintr_pm), 1000) {
            self.stats.interrupts.set(self.stats.interrupts.get() + 1);
            return Err(io::Error::new(io::ErrorKind::Interrupted, "EINTR"));
        }
        let n = if b.len() > 1 && self.short_pm > 0 && self.rng.chance(u64::from(self.short_pm), 1000) {
            self.stats.short_writes.set(self.stats.short_writes.get() + 1);
            self.rng.usize(1, b.len() - 1)
        } else {
            b.len()
        };
        self.buf.borrow_mut().extend_from_slice(&b[..n]);
        Ok(n)
    }
    fn flush(&mut self) -> io::Result<()> {
        Ok(())
    }
}

// ---------------------------------------------------------------------------------------------
// Tap runner: records the raw stream between runner and writers

pub struct Tap<R> {
    pub inner: R,
    pub log: Rc<RefCell<Vec<Ev>>>,
    pub rec: Rc<RefCell<Recorder>>,
}

impl<R> Runner<SimWorld> for Tap<R>
where
    R: Runner<SimWorld>,
    R::EventStream: 'static,
{
    type Cli = R::Cli;
    type EventStream = futures::stream::LocalBoxStream<'static, parser::Result<Event<event::Cucumber<SimWorld>>>>;

    fn run<S>(self, features: S, cli: Self::Cli) -> Self::EventStream
    where
        S: futures::Stream<Item = parser::Result<cucumber::gherkin::Feature>> + 'static,
    {
        let (log, rec) = (self.log, self.rec);
        self.inner
            .run(features, cli)
            .inspect(move |it| {
                let e = rec.borrow_mut().record(it);
                rec.borrow().core.progress();
                log.borrow_mut().push(e);
            })
            .boxed_local()
    }
}

// ---------------------------------------------------------------------------------------------
// Probe writer: observes what `filter_run_and_exit` reads from the `Stats` getters

#[derive(Clone, Debug, Default, Serialize, Deserialize)]
pub struct ProbeObs {
    pub has_failed: Option<bool>,
    pub failed_steps: Option<usize>,
    pub parsing_errors: Option<usize>,
    pub hook_errors: Option<usize>,
    pub passed_steps: Option<usize>,
    pub skipped_steps: Option<usize>,
    pub retried_steps: Option<usize>,
    pub events_handled: usize,
}

pub struct Probe<Wr> {
    inner: Wr,
    obs: Rc<RefCell<ProbeObs>>,
}

impl<Wr: Writer<SimWorld>> Writer<SimWorld> for Probe<Wr> {
    type Cli = Wr::Cli;
    async fn handle_event(&mut self, ev: parser::Result<Event<event::Cucumber<SimWorld>>>, cli: &Self::Cli) {
        self.obs.borrow_mut().events_handled += 1;
        self.inner.handle_event(ev, cli).await;
    }
}

impl<Wr: writer::Stats<SimWorld>> writer::Stats<SimWorld> for Probe<Wr> {
    fn passed_steps(&self) -> usize {
        let v = self.inner.passed_steps();
        self.obs.borrow_mut().passed_steps = Some(v);
        v
    }
    fn skipped_steps(&self) -> usize {
        let v = self.inner.skipped_steps();
        self.obs.borrow_mut().skipped_steps = Some(v);
        v
    }
    fn failed_steps(&self) -> usize {
        let v = self.inner.failed_steps();
        self.obs.borrow_mut().failed_steps = Some(v);
        v
    }
    fn retried_steps(&self) -> usize {
        let v = self.inner.retried_steps();
        self.obs.borrow_mut().retried_steps = Some(v);
        v
    }
    fn parsing_errors(&self) -> usize {
        let v = self.inner.parsing_errors();
        self.obs.borrow_mut().parsing_errors = Some(v);
        v
    }
    fn hook_errors(&self) -> usize {
        let v = self.inner.hook_errors();
        self.obs.borrow_mut().hook_errors = Some(v);
        v
    }
    fn execution_has_failed(&self) -> bool {
        let v = self.inner.execution_has_failed();
        {
            let mut o = self.obs.borrow_mut();
            o.has_failed = Some(v);
        }
        // also sample every getter, so the oracle can compare them with the panic message
        let _ = (self.passed_steps(), self.skipped_steps(), self.retried_steps());
        v
    }
}

impl<Wr: writer::Normalized> writer::Normalized for Probe<Wr> {}

// ---------------------------------------------------------------------------------------------

#[derive(Clone, Debug, Serialize, Deserialize)]
pub struct BHistory {
    /// Raw stream between runner and writer stack.
    pub raw: Vec<Ev>,
    pub cb: Vec<CbEntry>,
    pub parser: ParserLog,
    pub end: RunEnd,
    /// Panic message of `filter_run_and_exit`, if it panicked.
    pub panic_msg: Option<String>,
    pub probe: ProbeObs,
    /// Bytes written to each sink.
    pub outputs: BTreeMap<String, String>,
    pub stack: String,
    pub stats: SchedStats,
    pub sched_digest: u64,
    pub short_writes: u64,
    pub interrupts: u64,
    pub sink_writes: u64,
    pub filter_run: bool,
}

impl BHistory {
    pub fn digest(&self) -> u64 {
        let mut h = core::FNV_INIT;
        for e in &self.raw {
            core::fnv(&mut h, e.k.tag().as_bytes());
            core::fnv(&mut h, &e.at.to_le_bytes());
        }
        for (k, v) in &self.outputs {
            core::fnv(&mut h, k.as_bytes());
            core::fnv(&mut h, v.as_bytes());
        }
        core::fnv(&mut h, &self.sched_digest.to_le_bytes());
        core::fnv(&mut h, format!("{:?}{:?}", self.end, self.panic_msg).as_bytes());
        h
    }
}

pub const STACKS_B: &[&str] = &[
    "basic_summarized",
    "libtest",
    "tee_basic_libtest",
    "or_basic_libtest",
    "fos_basic_summarized",
    "fos_custom_basic_summarized",
    "repeat_failed_inside_summarize",
    "repeat_skipped_outside_summarize",
    "fos_libtest",
    "fos_tee",
];

fn custom_fos(_f: &cucumber::gherkin::Feature, _r: Option<&cucumber::gherkin::Rule>, s: &cucumber::gherkin::Scenario) -> bool {
    crate::worldc::custom_fos_name(&crate::plan::scenario_identity(s))
}

struct Ctx {
    core: Rc<SimCore>,
    plan: Rc<Plan>,
    sink_stats: Rc<SinkStats>,
    bufs: Vec<(String, Rc<RefCell<Vec<u8>>>)>,
    seed: Rng,
}

impl Ctx {
    fn sink(&mut self, name: &str) -> Sink {
        let w = &self.plan.writer;
        let (s, b) = Sink::new(self.seed.next_u64(), w.short_write_pm, w.eintr_pm, &self.sink_stats);
        self.bufs.push((name.to_owned(), b));
        s
    }
    fn basic_cli(&self) -> writer::basic::Cli {
        writer::basic::Cli { verbose: 0, color: Coloring::Never }
    }
    fn libtest_cli(&self, json: bool) -> writer::libtest::Cli {
        let w = &self.plan.writer;
        writer::libtest::Cli {
            format: json.then_some(writer::libtest::Format::Json),
            show_output: w.show_output,
            report_time: w.report_time.then_some(writer::libtest::ReportTime::Plain),
            nightly: None,
        }
    }
}

/// Runs the pipeline with the given writer stack.
fn run_pipeline<Wr>(cx: &mut Ctx, writer: Wr, wcli: Wr::Cli, stack: &str) -> Result<BHistory, String>
where
    Wr: Writer<SimWorld> + writer::Stats<SimWorld> + writer::Normalized + 'static,
    Wr::Cli: 'static,
{
    let core = Rc::clone(&cx.core);
    let plan = Rc::clone(&cx.plan);
    let ctx = world::install_run(&core, &plan, false);
    runa::install_counting_hook();
    let stream = SimParserStream::new(&core, &plan)?;
    let plog = Rc::clone(&stream.log);
    let runner: SimRunner = runa::build_runner(&plan);
    let raw = Rc::new(RefCell::new(Vec::new()));
    let rec = Rc::new(RefCell::new(Recorder::new(&core)));
    let tap = Tap { inner: runner, log: Rc::clone(&raw), rec };
    let obs = Rc::new(RefCell::new(ProbeObs::default()));
    let probe = Probe { inner: writer, obs: Rc::clone(&obs) };
    let opts = cli::Opts {
        re_filter: None,
        tags_filter: None,
        parser: cli::Empty,
        runner: runa::build_cli(&plan),
        writer: wcli,
        custom: cli::Empty,
    };
    let cuc = Cucumber::<SimWorld, _, (), _, _, cli::Empty>::custom(SimParser(stream), tap, probe).with_cli(opts);
    let root = Box::pin(async move {
        cuc.filter_run_and_exit((), |_, _, _| true).await;
    });
    let outcome = core::run_root(&core, root, &mut |_| {});
    runa::install_counting_hook();
    world::uninstall_run();
    let panic_msg = outcome.panic_payload.as_deref().map(|p| {
        p.downcast_ref::<String>().cloned().or_else(|| p.downcast_ref::<&'static str>().map(|s| (*s).to_owned())).unwrap_or_else(|| {
            if p.is::<core::IdleSpinSentinel>() { "IdleSpinSentinel".into() } else { "<non-string payload>".into() }
        })
    });
    let mut outputs = BTreeMap::new();
    for (name, b) in &cx.bufs {
        outputs.insert(name.clone(), String::from_utf8_lossy(&b.borrow()).into_owned());
    }
    Ok(BHistory {
        raw: raw.borrow().clone(),
        cb: ctx.cb_log.borrow().clone(),
        parser: plog.borrow().clone(),
        end: outcome.end,
        panic_msg,
        probe: obs.borrow().clone(),
        outputs,
        stack: stack.to_owned(),
        stats: core.stats.borrow().clone(),
        sched_digest: core.sched_digest.get(),
        short_writes: cx.sink_stats.short_writes.get(),
        interrupts: cx.sink_stats.interrupts.get(),
        sink_writes: cx.sink_stats.writes.get(),
        filter_run: false,
    })
}

type Item = parser::Result<Event<event::Cucumber<SimWorld>>>;
type Comp<L, R> = cli::Compose<L, R>;

fn or_right_if_json(_: &Item, cli: &Comp<writer::basic::Cli, writer::libtest::Cli>) -> bool {
    !matches!(cli.right.format, Some(writer::libtest::Format::Json))
}

pub fn stack_name_b(plan: &Plan) -> &'static str {
    STACKS_B[(plan.writer.stack as usize) % STACKS_B.len()]
}

/// Executes `plan` in world B with the writer stack it names.
pub fn run_world_b(plan: &Rc<Plan>) -> Result<BHistory, String> {
    let core = SimCore::new(plan.sched.clone());
    core::install_hooks(&core);
    let mut cx = Ctx {
        core: Rc::clone(&core),
        plan: Rc::clone(plan),
        sink_stats: Rc::new(SinkStats::default()),
        bufs: Vec::new(),
        seed: Rng::new(plan.writer.sink_seed ^ 0xB0B),
    };
    let verb = plan.writer.verbosity;
    let stack = stack_name_b(plan);
    let res = match stack {
        "basic_summarized" => {
            let w = writer::Basic::new(cx.sink("basic"), Coloring::Never, verb).summarized();
            let c = cx.basic_cli();
            run_pipeline(&mut cx, w, c, stack)
        }
        "libtest" => {
            let w = writer::Libtest::new(cx.sink("libtest"));
            let c = cx.libtest_cli(true);
            run_pipeline(&mut cx, w, c, stack)
        }
        "tee_basic_libtest" => {
            let l = writer::Basic::new(cx.sink("basic"), Coloring::Never, verb).summarized();
            let r = writer::Libtest::new(cx.sink("libtest"));
            let c = Comp { left: cx.basic_cli(), right: cx.libtest_cli(true) };
            run_pipeline(&mut cx, l.tee::<SimWorld, _>(r), c, stack)
        }
        "or_basic_libtest" => {
            let l = writer::Basic::new(cx.sink("basic"), Coloring::Never, verb).summarized();
            let r = writer::Libtest::new(cx.sink("libtest"));
            // the plan's `show_output` bit doubles as "--format json given"
            let json = plan.writer.report_time;
            let c = Comp { left: cx.basic_cli(), right: cx.libtest_cli(json) };
            let pred: fn(&Item, &Comp<writer::basic::Cli, writer::libtest::Cli>) -> bool = or_right_if_json;
            run_pipeline(&mut cx, writer::Or::new(l, r, pred), c, stack)
        }
        "fos_basic_summarized" => {
            let w = writer::Basic::new(cx.sink("basic"), Coloring::Never, verb).summarized().fail_on_skipped();
            let c = cx.basic_cli();
            run_pipeline(&mut cx, w, c, stack)
        }
        "fos_custom_basic_summarized" => {
            let w = writer::Basic::new(cx.sink("basic"), Coloring::Never, verb).summarized().fail_on_skipped_with(custom_fos);
            let c = cx.basic_cli();
            run_pipeline(&mut cx, w, c, stack)
        }
        "repeat_failed_inside_summarize" => {
            let w = writer::Basic::new(cx.sink("basic"), Coloring::Never, verb).repeat_failed().summarized();
            let c = cx.basic_cli();
            run_pipeline(&mut cx, w, c, stack)
        }
        "repeat_skipped_outside_summarize" => {
            let w = writer::Basic::new(cx.sink("basic"), Coloring::Never, verb).summarized().repeat_skipped();
            let c = cx.basic_cli();
            run_pipeline(&mut cx, w, c, stack)
        }
        "fos_libtest" => {
            let w = writer::Libtest::new(cx.sink("libtest")).fail_on_skipped();
            let c = cx.libtest_cli(true);
            run_pipeline(&mut cx, w, c, stack)
        }
        "fos_tee" => {
            let l = writer::Basic::new(cx.sink("basic"), Coloring::Never, verb).summarized();
            let r = writer::Libtest::new(cx.sink("libtest"));
            let c = Comp { left: cx.basic_cli(), right: cx.libtest_cli(true) };
            run_pipeline(&mut cx, l.tee::<SimWorld, _>(r).fail_on_skipped(), c, stack)
        }
        other => Err(format!("harness: unknown world-B stack {other}")),
    };
    core::uninstall_hooks();
    res
}

/// Which kind of fail-on-skipped the stack applies: 0 none, 1 default predicate, 2 custom.
pub fn fos_kind(stack: &str) -> u8 {
    match stack {
        "fos_basic_summarized" | "fos_libtest" | "fos_tee" => 1,
        "fos_custom_basic_summarized" => 2,
        _ => 0,
    }
}

// ---------------------------------------------------------------------------------------------
// Real-runner histories for the writer oracles (C12, C14): the whole pipeline through
// `Cucumber::filter_run`, returning the writer so that its state can be inspected.

pub struct RealRun<Wr> {
    pub raw: Vec<Ev>,
    pub end: RunEnd,
    pub panic_msg: Option<String>,
    pub writer: Option<Wr>,
    pub stats: SchedStats,
    pub sched_digest: u64,
}

pub fn run_filter_run<Wr>(core: &Rc<SimCore>, plan: &Rc<Plan>, writer: Wr, wcli: Wr::Cli) -> Result<RealRun<Wr>, String>
where
    Wr: Writer<SimWorld> + writer::Normalized + 'static,
    Wr::Cli: 'static,
{
    let _ctx = world::install_run(core, plan, false);
    runa::install_counting_hook();
    let stream = SimParserStream::new(core, plan)?;
    let runner: SimRunner = runa::build_runner(plan);
    let raw = Rc::new(RefCell::new(Vec::new()));
    let rec = Rc::new(RefCell::new(Recorder::new(core)));
    // Where every entity of the plan can be told from every other by what it is, the tap keeps no `Source`
    // alive: features that have finished are freed, and the features the parser builds later are allocated
    // where they were - identity by address alone (a writer's cache, say) meets its ABA case.
    if crate::plan::entities_distinct(plan) {
        rec.borrow_mut().ptrs.release();
    }
    let rec2 = Rc::clone(&rec);
    let tap = Tap { inner: runner, log: Rc::clone(&raw), rec };
    let opts = cli::Opts { re_filter: None, tags_filter: None, parser: cli::Empty, runner: runa::build_cli(plan), writer: wcli, custom: cli::Empty };
    let cuc = Cucumber::<SimWorld, _, (), _, _, cli::Empty>::custom(SimParser(stream), tap, writer).with_cli(opts);
    let out: Rc<RefCell<Option<Wr>>> = Rc::new(RefCell::new(None));
    let out2 = Rc::clone(&out);
    let root = Box::pin(async move {
        let w = cuc.filter_run((), |_, _, _| true).await;
        *out2.borrow_mut() = Some(w);
    });
    let outcome = core::run_root(core, root, &mut |_| {});
    runa::install_counting_hook();
    world::uninstall_run();
    let panic_msg = outcome.panic_payload.as_deref().map(|p| {
        p.downcast_ref::<String>().cloned().or_else(|| p.downcast_ref::<&'static str>().map(|s| (*s).to_owned())).unwrap_or_else(|| "<non-string payload>".into())
    });
    let writer = out.borrow_mut().take();
    core.stats.borrow_mut().reused_addresses = rec2.borrow().ptrs.reused_addresses as u64;
    Ok(RealRun { raw: raw.borrow().clone(), end: outcome.end, panic_msg, writer, stats: core.stats.borrow().clone(), sched_digest: core.sched_digest.get() })
}
