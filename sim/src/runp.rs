//! World P ("pipeline"): the same plans and the same oracles as world A, but the runner is not
//! polled directly - it is configured and driven through the `Cucumber` builder (src/cucumber.rs):
//! `Cucumber::custom(parser, runner::Basic::default(), recording writer)`, the forwarding builder
//! methods (`steps`, `max_concurrent_scenarios`, `retries`, `retry_after`, `retry_filter`,
//! `fail_fast`, `which_scenario`, `retry_options`, `before`, `after`), `with_cli` - before or after
//! the other calls - and `filter_run` / `filter_run_and_exit` with the filter closure of the plan.

use std::{
    cell::{Cell, RefCell},
    panic,
    rc::Rc,
    sync::atomic::Ordering,
    time::Duration,
};

use cucumber::{Cucumber, Event, Writer, cli, event, parser, runner::basic::RetryOptions, writer};

use crate::{
    core::{self, RunEnd, SimCore},
    parser::{SimParser, SimParserStream},
    plan::Plan,
    record::{Ev, K, Recorder},
    runa::{self, History, Quiescent, SimRunner},
    world::{self, SimWorld},
};

/// Sole writer of the pipeline: records the raw stream (claims `Normalized` so that `Cucumber`
/// accepts it without a `Normalize` in front) and counts nothing: the verdict is none of this
/// world's business, `execution_has_failed()` follows the stream.
struct PRec {
    core: Rc<SimCore>,
    rec: Recorder,
    events: Rc<RefCell<Vec<Ev>>>,
    polls: Rc<RefCell<Vec<u64>>>,
    after_fin: Rc<Cell<usize>>,
    seen_finished: bool,
    consumer_busy: Rc<Cell<bool>>,
    failed: Rc<Cell<(usize, usize, usize)>>,
}

impl Writer<SimWorld> for PRec {
    type Cli = cli::Empty;
    async fn handle_event(&mut self, ev: parser::Result<Event<event::Cucumber<SimWorld>>>, _: &cli::Empty) {
        // A writer doing its I/O first (slow consumer, as in world A): the event is taken note of only
        // after the await, so a `handle_event` future that is dropped half-way loses it.
        let pm = self.core.knobs.consumer_pm;
        if pm > 0 {
            let stall = {
                let mut r = self.core.rng.borrow_mut();
                r.chance(u64::from(pm), 1000).then(|| if r.chance(1, 2) { 0 } else { r.log_dur(10_000_000) })
            };
            if let Some(d) = stall {
                self.core.stats.borrow_mut().consumer_stalls += 1;
                self.consumer_busy.set(true);
                if d == 0 {
                    self.core.yield_now().await;
                } else {
                    self.core.sleep(d, core::LABEL_WRITER).await;
                }
                self.consumer_busy.set(false);
            }
        }
        let e = self.rec.record(&ev);
        if self.seen_finished {
            self.after_fin.set(self.after_fin.get() + 1);
        }
        let (mut st, mut pe, mut hk) = self.failed.get();
        match &e.k {
            K::RunFinished => self.seen_finished = true,
            K::StepFailed { .. } if e.retries.is_none_or(|r| r.1 == 0) => st += 1,
            K::ParseError(_) => pe += 1,
            K::HookFailed(..) => hk += 1,
            _ => {}
        }
        self.failed.set((st, pe, hk));
        self.core.progress();
        self.events.borrow_mut().push(e);
        self.polls.borrow_mut().push(self.core.stats.borrow().root_polls);
        drop(ev);
    }
}

impl writer::Normalized for PRec {}

impl writer::Stats<SimWorld> for PRec {
    fn passed_steps(&self) -> usize {
        0
    }
    fn skipped_steps(&self) -> usize {
        0
    }
    fn failed_steps(&self) -> usize {
        self.failed.get().0
    }
    fn retried_steps(&self) -> usize {
        0
    }
    fn parsing_errors(&self) -> usize {
        self.failed.get().1
    }
    fn hook_errors(&self) -> usize {
        self.failed.get().2
    }
}

type Cuc = CucOf<PRec>;
/// The pipeline with any writer in it (world T configures its own the same way).
pub type CucOf<Wr> = Cucumber<SimWorld, SimParser, (), SimRunner, Wr, cli::Empty>;

/// The runner-related builder calls, through `Cucumber`'s forwarding methods.
pub fn configure<Wr: cucumber::Writer<SimWorld>>(mut c: CucOf<Wr>, plan: &Plan) -> CucOf<Wr> {
    let cfg = &plan.cfg;
    c = c.steps(runa::build_collection(plan));
    match cfg.builder_concurrency {
        crate::plan::BuilderLimit::Unset => {}
        // (after an earlier finite limit: the later call must win)
        crate::plan::BuilderLimit::Unlimited => c = c.max_concurrent_scenarios(2).max_concurrent_scenarios(None),
        crate::plan::BuilderLimit::Limit(n) => c = c.max_concurrent_scenarios(n),
    }
    if let Some(n) = cfg.builder_retries {
        c = c.retries(n);
    }
    if let Some(ns) = cfg.builder_retry_after_ns {
        c = c.retry_after(Duration::from_nanos(ns));
    }
    if let Some(t) = &cfg.builder_retry_filter {
        c = c.retry_filter(Some(t.parse::<cucumber::gherkin::tagexpr::TagOperation>().expect("harness: tag expression")));
    }
    if cfg.builder_fail_fast {
        c = c.fail_fast();
    }
    c
}

pub fn hooks_and_classifiers<Wr: cucumber::Writer<SimWorld>>(mut c: CucOf<Wr>, plan: &Plan) -> CucOf<Wr> {
    let cfg = &plan.cfg;
    if cfg.custom_which {
        c = c.which_scenario(runa::which_custom as cucumber::runner::basic::WhichScenarioFn);
    }
    if let Some(map) = &cfg.closure_retry {
        let map = map.clone();
        c = c.retry_options(move |_f, _r, s, _cli| {
            map.get(&crate::plan::scenario_identity(s)).map(|(n, after)| RetryOptions {
                retries: event::Retries::initial(*n),
                after: after.map(Duration::from_nanos),
            })
        });
    }
    if plan.before_hook {
        c = c.before(world::before_fn as cucumber::runner::basic::BeforeHookFn<SimWorld>);
    }
    if plan.after_hook {
        c = c.after(world::after_fn as cucumber::runner::basic::AfterHookFn<SimWorld>);
    }
    c
}

/// Executes `plan` through the `Cucumber` pipeline and returns everything observed.
pub fn run_world_p(plan: &Rc<Plan>) -> Result<History, String> {
    let core = SimCore::new(plan.sched.clone());
    core.quiesce_polls.set(crate::check::quiesce_polls_for(plan));
    core::install_hooks(&core);
    let ctx = world::install_run(&core, plan, false);
    runa::install_counting_hook();
    let hook_before = runa::PANIC_HOOK_COUNT.load(Ordering::SeqCst);

    let stream = SimParserStream::new_unfiltered(&core, plan)?;
    let plog = Rc::clone(&stream.log);
    let events = Rc::new(RefCell::new(Vec::new()));
    let polls = Rc::new(RefCell::new(Vec::new()));
    let after_fin = Rc::new(Cell::new(0usize));
    let consumer_busy = Rc::new(Cell::new(false));
    let wr = PRec {
        core: Rc::clone(&core),
        rec: Recorder::new(&core),
        events: Rc::clone(&events),
        polls: Rc::clone(&polls),
        after_fin: Rc::clone(&after_fin),
        seen_finished: false,
        consumer_busy: Rc::clone(&consumer_busy),
        failed: Rc::new(Cell::new((0, 0, 0))),
    };
    let opts = || cli::Opts { re_filter: None, tags_filter: plan.cfg.tags_filter.as_deref().map(|t| t.parse().expect("harness: tag expression")), parser: cli::Empty, runner: runa::build_cli(plan), writer: cli::Empty, custom: cli::Empty };
    let base: Cuc = Cucumber::custom(SimParser(stream), SimRunner::default(), wr);
    // Order of the builder calls: the CLI options last (what the documentation shows), or first.
    let cuc = match plan.seed % 3 {
        0 => hooks_and_classifiers(configure(base, plan), plan).with_cli(opts()),
        1 => configure(hooks_and_classifiers(base.with_cli(opts()), plan), plan),
        _ => hooks_and_classifiers(configure(base, plan).with_cli(opts()), plan),
    };
    // the plan's filter: scenarios of the rules it names are rejected
    let rejected: Vec<(String, String)> = plan
        .filtered_rules
        .iter()
        .filter_map(|(fi, ri)| plan.features.get(*fi).and_then(|f| f.rules.get(*ri).map(|r| (f.name.clone(), r.name.clone()))))
        .collect();
    let filter = move |f: &cucumber::gherkin::Feature, r: Option<&cucumber::gherkin::Rule>, _s: &cucumber::gherkin::Scenario| {
        !r.is_some_and(|r| rejected.iter().any(|(fname, rname)| *fname == f.name && *rname == r.name))
    };
    let and_exit = plan.seed % 2 == 1;
    let ended = Rc::new(Cell::new(false));
    let ended2 = Rc::clone(&ended);
    let root: std::pin::Pin<Box<dyn std::future::Future<Output = ()>>> = if and_exit {
        Box::pin(async move {
            cuc.filter_run_and_exit((), filter).await;
            ended2.set(true);
        })
    } else {
        Box::pin(async move {
            drop(cuc.filter_run((), filter).await);
            ended2.set(true);
        })
    };

    let mut quiescent = Vec::new();
    let outcome = {
        let events = Rc::clone(&events);
        let plog = Rc::clone(&plog);
        let ctx2 = Rc::clone(&ctx);
        let core2 = Rc::clone(&core);
        let busy = Rc::clone(&consumer_busy);
        core::run_root(&core, root, &mut |info| {
            if info.quiescent && !busy.get() {
                let pl = plog.borrow();
                quiescent.push(Quiescent {
                    events: events.borrow().len(),
                    cbs: ctx2.cb_log.borrow().len(),
                    clock: core2.peek_ns(),
                    delivered: pl.delivered.len(),
                    parser_done: pl.finished_at.is_some(),
                });
            }
        })
    };

    let payload_text = outcome.panic_payload.as_deref().map(|p| {
        p.downcast_ref::<String>().cloned().or_else(|| p.downcast_ref::<&'static str>().map(|s| (*s).to_owned())).unwrap_or_else(|| {
            if p.is::<core::IdleSpinSentinel>() { "IdleSpinSentinel".into() } else { "<non-string>".into() }
        })
    });
    // `filter_run_and_exit` ends a failed run with a panic naming the counters: that is the run's
    // regular end, not a panic that escaped the runner.
    let summary_panic = and_exit
        && outcome.end == RunEnd::Panicked
        && matches!(events.borrow().last().map(|e: &Ev| &e.k), Some(K::RunFinished))
        && payload_text.as_deref().is_some_and(|m| m.contains("failed") || m.contains("parsing error") || m.contains("hook error"));
    let mut hook_count_during = runa::PANIC_HOOK_COUNT.load(Ordering::SeqCst) - hook_before;
    if summary_panic {
        // that one panic is raised after the runner has put the hook back: it goes through it
        hook_count_during = hook_count_during.saturating_sub(1);
    }
    // Is the hook that was installed before the run in place again - for every kind of payload?
    let before_probe = runa::PANIC_HOOK_COUNT.load(Ordering::SeqCst);
    let _ = panic::catch_unwind(|| panic::panic_any(0u8));
    let _ = panic::catch_unwind(|| panic::panic_any(String::from("probe")));
    let hook_restored = runa::PANIC_HOOK_COUNT.load(Ordering::SeqCst) == before_probe + 2;
    runa::install_counting_hook();
    core::uninstall_hooks();
    world::uninstall_run();

    let evs = events.borrow().clone();
    Ok(History {
        events: evs,
        event_poll: polls.borrow().clone(),
        quiescent,
        cb: ctx.cb_log.borrow().clone(),
        parser: plog.borrow().clone(),
        end: if summary_panic { RunEnd::Finished } else { outcome.end },
        stream_ended: ended.get() || summary_panic,
        items_after_finished: after_fin.get(),
        escaped_panic: if summary_panic { None } else { payload_text },
        hook_count_during,
        hook_restored,
        stats: core.stats.borrow().clone(),
        probes: core.probes.borrow().iter().map(|(k, v)| ((*k).to_owned(), *v)).collect(),
        dispatch_times: core.dispatch_times.borrow().clone(),
        sched_digest: core.sched_digest.get(),
        sched_trace: core.sched_trace.borrow().clone(),
        max_in_callbacks: ctx.max_in_callbacks.get(),
    })
}
