//! Deterministic simulation with fault injection for cucumber-rs/cucumber.
#![allow(clippy::all)]

pub mod check;
pub mod core;
pub mod genplan;
pub mod history;
pub mod model;
pub mod oracle_a;
pub mod oracle_b;
pub mod parser;
pub mod plan;
pub mod record;
pub mod reporters;
pub mod runa;
pub mod runb;
pub mod runp;
#[cfg(feature = "tracing")]
pub mod runt;
pub mod shrink;
pub mod world;
pub mod worldc;
