//! Deterministic simulation with fault injection for cucumber-rs/cucumber.
#![allow(clippy::all)]

pub mod core;
pub mod genplan;
pub mod parser;
pub mod plan;
pub mod record;
pub mod runa;
pub mod world;
