//! Synthetic contract-abiding histories: abstract concurrent emitters (one per feature, rule
//! and scenario attempt) whose events are real `event::Cucumber<SimWorld>` values, linearised
//! by a seeded interleaver into any order that respects happened-before. This reaches
//! interleavings `runner::Basic` never produces but the `Runner` contract allows.

use std::{rc::Rc, sync::Arc};

use cucumber::{
    Event,
    event::{self, Cucumber, HookType, Retries, Scenario, Source, StepError},
    gherkin, parser, step,
};
use regex::Regex;

use crate::{
    core::{Rng, SimCore},
    parser::{build_feature, make_error},
    plan::{Def, ParserItemKind, Plan},
    world::SimWorld,
};

pub type Item = parser::Result<Event<Cucumber<SimWorld>>>;

/// One node of the happened-before DAG.
struct Node {
    make: Box<dyn FnOnce() -> Item>,
    deps: usize,
    dependents: Vec<usize>,
    /// Chain successor (same emitter), preferred when bursty.
    next_in_chain: Option<usize>,
}

struct Dag {
    nodes: Vec<Option<Node>>,
}

impl Dag {
    fn add(&mut self, make: Box<dyn FnOnce() -> Item>, deps: &[usize]) -> usize {
        let id = self.nodes.len();
        self.nodes.push(Some(Node { make, deps: deps.len(), dependents: Vec::new(), next_in_chain: None }));
        for d in deps {
            self.nodes[*d].as_mut().expect("dep alive").dependents.push(id);
        }
        id
    }
}

fn ev(c: Cucumber<SimWorld>) -> Item {
    Ok(Event::new(c))
}

#[derive(Clone, Debug, Default, serde::Serialize, serde::Deserialize)]
pub struct HistoryShape {
    pub features: usize,
    pub attempts: usize,
    pub retried_attempts: usize,
    pub failed_attempts: usize,
    pub skipped_attempts: usize,
    pub hook_failures: usize,
    pub parse_errors: usize,
    pub events: usize,
    /// Max number of attempts open at once in the linearisation.
    pub max_open_attempts: usize,
    pub max_open_features: usize,
    #[serde(default)]
    pub logs: usize,
}

/// Generates a history for `plan` (must be called with the simulator hooks installed so that
/// `Event::new` stamps events with unique virtual times, in emission order).
pub fn generate(plan: &Plan, core: &Rc<SimCore>, seed: u64) -> Result<(Vec<Item>, HistoryShape), String> {
    generate_with_logs(plan, core, seed, false)
}

/// `logs`: (tracing build only) attempts also carry `Scenario::Log` events - mostly between a step's or
/// hook's Started and its result, sometimes just before a Started (where the real pipeline puts the
/// logs of an after hook) - with unique tokens, some of them multi-line.
pub fn generate_with_logs(plan: &Plan, core: &Rc<SimCore>, seed: u64, logs: bool) -> Result<(Vec<Item>, HistoryShape), String> {
    let mut r = Rng::new(seed);
    let mut dag = Dag { nodes: Vec::new() };
    let mut shape = HistoryShape::default();
    let _ = core;
    let tok = std::cell::Cell::new(0u64);
    let new_tok = || {
        let t = tok.get();
        tok.set(t + 1);
        format!("tok{t}x")
    };

    let fail_pm = *r.pick(&[0u64, 50, 200, 500]);
    let hook_fail_pm = *r.pick(&[0u64, 30, 150]);
    let retries_on = r.chance(1, 2);
    let sequential = r.chance(1, 6);
    let burst_pm = if sequential { 1000 } else { *r.pick(&[0u64, 300, 700, 950]) };
    let open_all_first = r.chance(1, 5);

    #[cfg(feature = "tracing")]
    let log_pm: u64 = if logs { *r.pick(&[0u64, 150, 500, 900]) } else { 0 };
    #[cfg(not(feature = "tracing"))]
    let _ = logs;
    let re = Regex::new("^x$").map_err(|e| e.to_string())?;
    let run_started = dag.add(Box::new(|| ev(Cucumber::Started)), &[]);
    let mut feature_finishes = Vec::new();
    let mut feature_starts = Vec::new();

    // parser side
    let mut perr_nodes = Vec::new();
    let mut n_feat = 0;
    let mut n_rules = 0;
    let mut n_sc = 0;
    let mut n_steps = 0;
    for it in &plan.items {
        match &it.kind {
            ParserItemKind::Feature(_) => {}
            k => {
                let e = make_error(k);
                shape.parse_errors += 1;
                let prev: Vec<usize> = perr_nodes.last().copied().into_iter().collect();
                // now and then the parser reports the very same error value once more (one directory / IO
                // error handed out for every file it concerns): two items, to be counted as two
                let again = r.chance(1, 4).then(|| e.clone());
                perr_nodes.push(dag.add(Box::new(move || Err(e)), &prev));
                if let Some(e2) = again {
                    shape.parse_errors += 1;
                    let prev: Vec<usize> = perr_nodes.last().copied().into_iter().collect();
                    perr_nodes.push(dag.add(Box::new(move || Err(e2)), &prev));
                }
            }
        }
    }

    for spec in &plan.features {
        let feature = build_feature(spec)?;
        use cucumber::feature::Ext as _;
        n_feat += 1;
        n_rules += feature.rules.len();
        n_sc += feature.count_scenarios();
        n_steps += feature.count_steps();
        if feature.count_scenarios() == 0 {
            continue;
        }
        shape.features += 1;
        let fsrc: Source<gherkin::Feature> = Source::new(feature);
        let f1 = fsrc.clone();
        let fs_deps: Vec<usize> = if open_all_first { vec![run_started] } else { vec![run_started] };
        let fs = dag.add(Box::new(move || ev(Cucumber::feature_started(f1))), &fs_deps);
        feature_starts.push(fs);
        let mut feature_children_last: Vec<usize> = Vec::new();

        // (rule, scenarios) groups: None = feature level
        let mut groups: Vec<(Option<Source<gherkin::Rule>>, Vec<gherkin::Scenario>)> = Vec::new();
        groups.push((None, fsrc.scenarios.clone()));
        for rl in &fsrc.rules {
            groups.push((Some(Source::new(rl.clone())), rl.scenarios.clone()));
        }
        for (rule, scenarios) in groups {
            if scenarios.is_empty() {
                continue;
            }
            let (parent, mut rule_children_last) = if let Some(rs) = &rule {
                let (f2, r2) = (fsrc.clone(), rs.clone());
                (dag.add(Box::new(move || ev(Cucumber::rule_started(f2, r2))), &[fs]), Vec::new())
            } else {
                (fs, Vec::new())
            };
            for sc in scenarios {
                let ssrc = Source::new(sc.clone());
                let budget = if retries_on && r.chance(2, 3) { Some(r.usize(0, 3)) } else { None };
                let mut prev_last: Option<usize> = None;
                let mut k = 0usize;
                loop {
                    let retries = budget.map(|n| Retries { current: k, left: n - k });
                    shape.attempts += 1;
                    // build the attempt's abstract event list
                    let mut evs: Vec<Scenario<SimWorld>> = vec![Scenario::Started];
                    let mut failed = false;
                    let mut skipped = false;
                    let mut deferred: Option<Scenario<SimWorld>> = None;
                    let world = || Some(Arc::new(SimWorld { id: 0, counter: 0, trail: Vec::new() }));
                    if plan.before_hook {
                        evs.push(Scenario::hook_started(HookType::Before));
                        if r.chance(hook_fail_pm, 1000) {
                            shape.hook_failures += 1;
                            let info: event::Info = Arc::new(format!("boom {}", new_tok()));
                            deferred = Some(Scenario::hook_failed(HookType::Before, world(), info));
                        } else {
                            evs.push(Scenario::hook_passed(HookType::Before));
                        }
                    }
                    if deferred.is_none() {
                        let bg_f = fsrc.background.iter().flat_map(|b| b.steps.iter()).map(|s| (s, true));
                        let bg_r = rule.iter().flat_map(|r| r.background.iter()).flat_map(|b| b.steps.iter()).map(|s| (s, true));
                        let own = sc.steps.iter().map(|s| (s, false));
                        for (st, bg) in bg_f.chain(bg_r).chain(own) {
                            let ssrc_step = Source::new(st.clone());
                            let def = step_def(plan, &st.value);
                            let started = if bg {
                                Scenario::background_step_started(ssrc_step.clone())
                            } else {
                                Scenario::step_started(ssrc_step.clone())
                            };
                            evs.push(started);
                            match def {
                                Def::None => {
                                    evs.push(if bg {
                                        Scenario::background_step_skipped(ssrc_step)
                                    } else {
                                        Scenario::step_skipped(ssrc_step)
                                    });
                                    skipped = true;
                                    break;
                                }
                                Def::Two => {
                                    let am = step::AmbiguousMatchError {
                                        possible_matches: vec![(re.clone().into(), None), (Regex::new("^y$").unwrap().into(), None)],
                                    };
                                    let err = StepError::AmbiguousMatch(am);
                                    deferred = Some(if bg {
                                        Scenario::background_step_failed(ssrc_step, None, None, world(), err)
                                    } else {
                                        Scenario::step_failed(ssrc_step, None, None, world(), err)
                                    });
                                    break;
                                }
                                Def::One => {
                                    if r.chance(fail_pm, 1000) {
                                        let payload: event::Info = match r.below(3) {
                                            // now and then a message of many kilobytes (an assertion dumping a large value),
                                            // multi-byte text at every offset, its token at the very end
                                            0 if r.chance(1, 25) => {
                                                let unit = *r.pick(&["x", "ж", "語", "🙂", "a\u{301}"]);
                                                let n = r.range(3_000, 70_000) as usize / unit.len();
                                                let pad = &"abc"[..r.below(3) as usize];
                                                Arc::new(format!("boom {pad}{} {}", unit.repeat(n), new_tok()))
                                            }
                                            0 => Arc::new(format!("boom {}", new_tok())),
                                            1 => {
                                                let s: &'static str = Box::leak(format!("boom {}", new_tok()).into_boxed_str());
                                                Arc::new(s)
                                            }
                                            _ => Arc::new(crate::world::CustomPayload(new_tok())),
                                        };
                                        let err = StepError::Panic(payload);
                                        let caps = Some(re.capture_locations());
                                        let loc = r.chance(1, 2).then_some(step::Location { path: "tests/steps.rs", line: 7, column: 3 });
                                        deferred = Some(if bg {
                                            Scenario::background_step_failed(ssrc_step, caps, loc, world(), err)
                                        } else {
                                            Scenario::step_failed(ssrc_step, caps, loc, world(), err)
                                        });
                                        break;
                                    }
                                    let loc = r.chance(1, 2).then_some(step::Location { path: "tests/steps.rs", line: 7, column: 3 });
                                    evs.push(if bg {
                                        Scenario::background_step_passed(ssrc_step, re.capture_locations(), loc)
                                    } else {
                                        Scenario::step_passed(ssrc_step, re.capture_locations(), loc)
                                    });
                                }
                            }
                        }
                    }
                    if let Some(d) = deferred {
                        failed = true;
                        evs.push(d);
                    }
                    if plan.after_hook {
                        evs.push(Scenario::hook_started(HookType::After));
                        if r.chance(hook_fail_pm, 1000) {
                            shape.hook_failures += 1;
                            failed = true;
                            let info: event::Info = Arc::new(format!("boom {}", new_tok()));
                            evs.push(Scenario::hook_failed(HookType::After, world(), info));
                        } else {
                            evs.push(Scenario::hook_passed(HookType::After));
                        }
                    }
                    evs.push(Scenario::Finished);
                    if failed {
                        shape.failed_attempts += 1;
                    }
                    if skipped {
                        shape.skipped_attempts += 1;
                    }
                    #[cfg(feature = "tracing")]
                    let evs = if log_pm > 0 {
                        let mut with_logs: Vec<Scenario<SimWorld>> = Vec::with_capacity(evs.len());
                        let mut emit = |r: &mut Rng, out: &mut Vec<Scenario<SimWorld>>, shape: &mut HistoryShape| {
                            for _ in 0..r.usize(1, 3) {
                                let t = new_tok();
                                let msg = match r.below(8) {
                                    0 | 1 => format!("LOGLINE log{t}\n  second line of log{t}\n"),
                                    // a message with an empty line in it
                                    2 => format!("LOGLINE log{t}\n\n  after the blank line of log{t}\n"),
                                    _ => format!("LOGLINE log{t}\n"),
                                };
                                shape.logs += 1;
                                out.push(Scenario::Log(msg));
                            }
                        };
                        for se in evs {
                            let is_started = matches!(
                                &se,
                                Scenario::Hook(_, event::Hook::Started) | Scenario::Step(_, event::Step::Started) | Scenario::Background(_, event::Step::Started)
                            );
                            if is_started && r.chance(log_pm, 5000) {
                                emit(&mut r, &mut with_logs, &mut shape);
                            }
                            with_logs.push(se);
                            if is_started && r.chance(log_pm, 1000) {
                                emit(&mut r, &mut with_logs, &mut shape);
                            }
                        }
                        with_logs
                    } else {
                        evs
                    };
                    // chain nodes
                    let mut prev: Option<usize> = None;
                    for (i, se) in evs.into_iter().enumerate() {
                        let (f3, r3, s3) = (fsrc.clone(), rule.clone(), ssrc.clone());
                        let mut deps: Vec<usize> = Vec::new();
                        if i == 0 {
                            deps.push(parent);
                            if let Some(p) = prev_last {
                                deps.push(p);
                            }
                        } else if let Some(p) = prev {
                            deps.push(p);
                        }
                        // (a struct literal on purpose: a `Runner` of the user's own may build its events
                        // that way, and nothing in this harness should depend on `with_retries()`)
                        let id = dag.add(Box::new(move || ev(Cucumber::scenario(f3, r3, s3, event::RetryableScenario { event: se, retries }))), &deps);
                        if let Some(p) = prev {
                            dag.nodes[p].as_mut().unwrap().next_in_chain = Some(id);
                        }
                        prev = Some(id);
                    }
                    prev_last = prev;
                    let will_retry = failed && retries.is_some_and(|x| x.left > 0);
                    if will_retry {
                        shape.retried_attempts += 1;
                        k += 1;
                    } else {
                        break;
                    }
                }
                rule_children_last.push(prev_last.expect("attempt has events"));
            }
            if let Some(rs) = &rule {
                let (f2, r2) = (fsrc.clone(), rs.clone());
                let lf = dag.add(Box::new(move || ev(Cucumber::rule_finished(f2, r2))), &rule_children_last);
                feature_children_last.push(lf);
            } else {
                feature_children_last.extend(rule_children_last);
            }
        }
        let f4 = fsrc.clone();
        let ff = dag.add(Box::new(move || ev(Cucumber::feature_finished(f4))), &feature_children_last);
        feature_finishes.push(ff);
    }
    let perr_count = shape.parse_errors;
    let mut pf_deps = perr_nodes.clone();
    if pf_deps.is_empty() {
        // anywhere
    } else {
        pf_deps = vec![*perr_nodes.last().unwrap()];
    }
    let pf = dag.add(
        Box::new(move || {
            ev(Cucumber::ParsingFinished { features: n_feat, rules: n_rules, scenarios: n_sc, steps: n_steps, parser_errors: perr_count })
        }),
        &pf_deps,
    );
    let mut fin_deps = feature_finishes.clone();
    fin_deps.push(pf);
    fin_deps.push(run_started);
    let _rf = dag.add(Box::new(|| ev(Cucumber::Finished)), &fin_deps);

    // linearise
    let total = dag.nodes.len();
    let mut enabled: Vec<usize> = (0..total).filter(|i| dag.nodes[*i].as_ref().unwrap().deps == 0).collect();
    let mut out: Vec<Item> = Vec::with_capacity(total);
    let mut last_chain_next: Option<usize> = None;
    let mut first = true;
    while !enabled.is_empty() {
        let pick_pos = if first {
            first = false;
            enabled.iter().position(|i| *i == run_started).unwrap_or(0)
        } else if open_all_first && enabled.iter().any(|i| feature_starts.contains(i)) {
            enabled.iter().position(|i| feature_starts.contains(i)).unwrap()
        } else if let Some(n) = last_chain_next.filter(|n| r.chance(burst_pm, 1000) && enabled.contains(n)) {
            enabled.iter().position(|i| *i == n).unwrap()
        } else if sequential {
            // lowest id first = fully sequential order
            let m = *enabled.iter().min().unwrap();
            enabled.iter().position(|i| *i == m).unwrap()
        } else {
            r.below(enabled.len() as u64) as usize
        };
        let id = enabled.swap_remove(pick_pos);
        let node = dag.nodes[id].take().expect("node once");
        out.push((node.make)());
        last_chain_next = node.next_in_chain;
        for d in node.dependents {
            let n = dag.nodes[d].as_mut().expect("dependent alive");
            n.deps -= 1;
            if n.deps == 0 {
                enabled.push(d);
            }
        }
    }
    if out.len() != total {
        return Err("harness: history DAG has a cycle".into());
    }
    shape.events = out.len();
    Ok((out, shape))
}

fn step_def(plan: &Plan, expanded_text: &str) -> Def {
    for st in crate::runa::all_steps(&plan.features) {
        if expanded_text == st.text || expanded_text.strip_prefix(st.text.as_str()).is_some_and(|rest| rest.starts_with(' ')) {
            return st.def;
        }
    }
    Def::One
}
