//! World A: `runner::Basic::run(SimParser stream, Cli)` polled directly by the simulator.

use std::{
    cell::RefCell,
    collections::BTreeMap,
    panic,
    rc::Rc,
    sync::atomic::{AtomicU64, Ordering},
    time::Duration,
};

use cucumber::{
    Runner as _, ScenarioType, event,
    gherkin,
    runner::{
        self,
        basic::{AfterHookFn, BeforeHookFn, RetryOptions, WhichScenarioFn},
    },
    step,
};
use futures::StreamExt as _;
use regex::Regex;
use serde::{Deserialize, Serialize};

use crate::{
    core::{self, RunEnd, SchedStats, SimCore},
    parser::{ParserLog, SimParserStream},
    plan::{Def, FeatureSpec, Kw, Plan, StepSpec},
    record::{Ev, Recorder},
    world::{self, CbEntry, SimWorld},
};

pub static PANIC_HOOK_COUNT: AtomicU64 = AtomicU64::new(0);

pub fn install_counting_hook() {
    panic::set_hook(Box::new(|_| {
        PANIC_HOOK_COUNT.fetch_add(1, Ordering::SeqCst);
    }));
}

#[derive(Clone, Debug, Serialize, Deserialize)]
pub struct Quiescent {
    /// Number of events received so far.
    pub events: usize,
    /// Number of callback log entries so far.
    pub cbs: usize,
    pub clock: u64,
    /// Number of parser items delivered so far.
    pub delivered: usize,
    pub parser_done: bool,
}

#[derive(Clone, Debug, Serialize, Deserialize)]
pub struct History {
    pub events: Vec<Ev>,
    /// For each event: index of the root poll during which it was received.
    pub event_poll: Vec<u64>,
    pub quiescent: Vec<Quiescent>,
    pub cb: Vec<CbEntry>,
    pub parser: ParserLog,
    pub end: RunEnd,
    /// Stream returned `None` (only then is the run complete).
    pub stream_ended: bool,
    /// Items received after run-`Finished`.
    pub items_after_finished: usize,
    pub escaped_panic: Option<String>,
    pub hook_count_during: u64,
    pub hook_restored: bool,
    pub stats: SchedStats,
    pub probes: BTreeMap<String, u64>,
    /// Virtual times at which the runner handed an attempt to its executor (hook H5).
    #[serde(default)]
    pub dispatch_times: Vec<u64>,
    pub sched_digest: u64,
    pub sched_trace: Vec<String>,
    pub max_in_callbacks: u32,
}

pub fn all_steps(features: &[FeatureSpec]) -> Vec<&StepSpec> {
    let mut v = Vec::new();
    for f in features {
        v.extend(f.background.iter());
        for s in &f.scenarios {
            v.extend(s.steps.iter());
        }
        for r in &f.rules {
            v.extend(r.background.iter());
            for s in &r.scenarios {
                v.extend(s.steps.iter());
            }
        }
    }
    v
}

pub fn build_collection(plan: &Plan) -> step::Collection<SimWorld> {
    let mut c = step::Collection::new();
    let mut seen = std::collections::BTreeSet::new();
    for st in all_steps(&plan.features) {
        if !seen.insert((st.kw.as_str(), st.text.clone())) {
            continue;
        }
        let esc = regex::escape(&st.text);
        let mut add = |c: step::Collection<SimWorld>, re: String, loc: Option<step::Location>| {
            // every fifth definition is written in upper case and registered case-insensitively through
            // `RegexBuilder`: its pattern text alone does not match the step, the flag does
            let re = if st.text.bytes().map(usize::from).sum::<usize>() % 5 == 3 {
                regex::RegexBuilder::new(&re.to_uppercase().replace("\\W", "\\w").replace("\\S", "\\s")).case_insensitive(true).build().expect("harness: regex")
            } else {
                Regex::new(&re).expect("harness: regex")
            };
            match st.kw {
                Kw::Given => c.given(loc, re, world::sim_step),
                Kw::When => c.when(loc, re, world::sim_step),
                Kw::Then => c.then(loc, re, world::sim_step),
            }
        };
        match st.def {
            Def::None => {}
            Def::One => c = add(c, format!("^{esc}( \\w+)?$"), None),
            // two definitions: either two different expressions, or (every other step, by text) the very
            // same expression registered from two places, as the same attribute in two modules would be
            Def::Two if st.text.bytes().map(usize::from).sum::<usize>() % 2 == 0 => {
                c = add(c, format!("^{esc}( \\w+)?$"), None);
                c = add(c, format!("^{esc}( [a-z0-9]+)?$"), None);
            }
            Def::Two => {
                c = add(c, format!("^{esc}( \\w+)?$"), Some(step::Location { path: "steps/a.rs", line: 10, column: 1 }));
                c = add(c, format!("^{esc}( \\w+)?$"), Some(step::Location { path: "steps/b.rs", line: 20, column: 1 }));
            }
        }
    }
    c
}

thread_local! {
    static CLOSURE_RETRY: RefCell<Option<BTreeMap<String, (usize, Option<u64>)>>> = const { RefCell::new(None) };
}

pub fn which_custom(
    _f: &gherkin::Feature,
    _r: Option<&gherkin::Rule>,
    s: &gherkin::Scenario,
) -> ScenarioType {
    if crate::plan::scenario_identity(s).contains("_SER") { ScenarioType::Serial } else { ScenarioType::Concurrent }
}

pub type SimRunner =
    runner::Basic<SimWorld, WhichScenarioFn, BeforeHookFn<SimWorld>, AfterHookFn<SimWorld>>;

pub fn build_runner(plan: &Plan) -> SimRunner {
    let cfg = &plan.cfg;
    let mut r: SimRunner = runner::Basic::default().steps(build_collection(plan));
    match cfg.builder_concurrency {
        crate::plan::BuilderLimit::Unset => {}
        crate::plan::BuilderLimit::Unlimited => r = r.max_concurrent_scenarios(2).max_concurrent_scenarios(None),
        crate::plan::BuilderLimit::Limit(n) => r = r.max_concurrent_scenarios(n),
    }
    if let Some(n) = cfg.builder_retries {
        r = r.retries(n);
    }
    if let Some(ns) = cfg.builder_retry_after_ns {
        r = r.retry_after(Duration::from_nanos(ns));
    }
    if let Some(t) = &cfg.builder_retry_filter {
        r = r.retry_filter(Some(t.parse::<cucumber::gherkin::tagexpr::TagOperation>().expect("harness: tag expression")));
    }
    if cfg.builder_fail_fast {
        r = r.fail_fast();
    }
    if cfg.custom_which {
        r = r.which_scenario(which_custom as WhichScenarioFn);
    }
    if let Some(map) = &cfg.closure_retry {
        let map = map.clone();
        r = r.retry_options(move |_f, _r, s, _cli| {
            map.get(&crate::plan::scenario_identity(s)).map(|(n, after)| RetryOptions {
                retries: event::Retries::initial(*n),
                after: after.map(Duration::from_nanos),
            })
        });
    }
    if plan.before_hook {
        r = r.before(world::before_fn as BeforeHookFn<SimWorld>);
    }
    if plan.after_hook {
        r = r.after(world::after_fn as AfterHookFn<SimWorld>);
    }
    r
}

pub fn build_cli(plan: &Plan) -> runner::basic::Cli {
    let cfg = &plan.cfg;
    runner::basic::Cli {
        concurrency: cfg.cli_concurrency,
        fail_fast: cfg.cli_fail_fast,
        retry: cfg.cli_retry,
        retry_after: cfg.cli_retry_after_ns.map(Duration::from_nanos),
        retry_tag_filter: cfg.cli_retry_filter.as_deref().map(|t| t.parse().expect("harness: tag expression")),
    }
}

fn payload_string(p: &(dyn std::any::Any + Send)) -> String {
    if let Some(s) = p.downcast_ref::<String>() {
        s.clone()
    } else if let Some(s) = p.downcast_ref::<&'static str>() {
        (*s).to_owned()
    } else if p.is::<core::IdleSpinSentinel>() {
        "IdleSpinSentinel".into()
    } else {
        "<non-string payload>".into()
    }
}

/// Executes `plan` in world A and returns everything observed.
pub fn run_world_a(plan: &Rc<Plan>) -> Result<History, String> {
    let core = SimCore::new(plan.sched.clone());
    core.quiesce_polls.set(crate::check::quiesce_polls_for(plan));
    core::install_hooks(&core);
    let ctx = world::install_run(&core, plan, false);
    install_counting_hook();
    let hook_before = PANIC_HOOK_COUNT.load(Ordering::SeqCst);

    let stream = SimParserStream::new(&core, plan)?;
    let plog = Rc::clone(&stream.log);
    let runner = build_runner(plan);
    let cli = build_cli(plan);

    let events: Rc<RefCell<Vec<Ev>>> = Rc::new(RefCell::new(Vec::new()));
    let event_poll: Rc<RefCell<Vec<u64>>> = Rc::new(RefCell::new(Vec::new()));
    let ended = Rc::new(std::cell::Cell::new(false));
    let after_fin = Rc::new(std::cell::Cell::new(0usize));

    let consumer_busy = Rc::new(std::cell::Cell::new(false));
    let consumer_busy_obs = Rc::clone(&consumer_busy);
    let root = {
        let events = Rc::clone(&events);
        let event_poll = Rc::clone(&event_poll);
        let ended = Rc::clone(&ended);
        let after_fin = Rc::clone(&after_fin);
        let core2 = Rc::clone(&core);
        let mut rec = Recorder::new(&core);
        Box::pin(async move {
            let mut s = runner.run(stream, cli);
            let mut seen_finished = false;
            while let Some(item) = s.next().await {
                let ev = rec.record(&item);
                if seen_finished {
                    after_fin.set(after_fin.get() + 1);
                }
                if matches!(ev.k, crate::record::K::RunFinished) {
                    seen_finished = true;
                }
                core2.progress();
                events.borrow_mut().push(ev);
                event_poll.borrow_mut().push(core2.stats.borrow().root_polls);
                drop(item);
                // slow consumer: the runner is not polled while the consumer is busy
                let pm = core2.knobs.consumer_pm;
                if pm > 0 {
                    let stall = {
                        let mut r = core2.rng.borrow_mut();
                        r.chance(u64::from(pm), 1000).then(|| if r.chance(1, 2) { 0 } else { r.log_dur(10_000_000) })
                    };
                    if let Some(d) = stall {
                        core2.stats.borrow_mut().consumer_stalls += 1;
                        consumer_busy.set(true);
                        if d == 0 {
                            core2.yield_now().await;
                        } else {
                            core2.sleep(d, core::LABEL_WRITER).await;
                        }
                        consumer_busy.set(false);
                    }
                }
            }
            ended.set(true);
        })
    };

    let mut quiescent = Vec::new();
    let outcome = {
        let events = Rc::clone(&events);
        let plog = Rc::clone(&plog);
        let ctx2 = Rc::clone(&ctx);
        let core2 = Rc::clone(&core);
        core::run_root(&core, root, &mut |info| {
            // while the consumer stalls, the runner may still have undelivered work: not quiescent
            if info.quiescent && !consumer_busy_obs.get() {
                let pl = plog.borrow();
                quiescent.push(Quiescent {
                    events: events.borrow().len(),
                    cbs: ctx2.cb_log.borrow().len(),
                    clock: core2.peek_ns(),
                    delivered: pl.delivered.len(),
                    parser_done: pl.finished_at.is_some(),
                });
            }
        })
    };

    let hook_count_during = PANIC_HOOK_COUNT.load(Ordering::SeqCst) - hook_before;
    // Is the hook that was installed before the run in place again?
    let before_probe = PANIC_HOOK_COUNT.load(Ordering::SeqCst);
    let _ = panic::catch_unwind(|| panic::panic_any(0u8));
    let hook_restored = PANIC_HOOK_COUNT.load(Ordering::SeqCst) == before_probe + 1;
    install_counting_hook();

    core::uninstall_hooks();
    world::uninstall_run();

    let h = History {
        events: events.borrow().clone(),
        event_poll: event_poll.borrow().clone(),
        quiescent,
        cb: ctx.cb_log.borrow().clone(),
        parser: plog.borrow().clone(),
        end: outcome.end,
        stream_ended: ended.get(),
        items_after_finished: after_fin.get(),
        escaped_panic: outcome.panic_payload.as_deref().map(payload_string),
        hook_count_during,
        hook_restored,
        stats: core.stats.borrow().clone(),
        probes: core.probes.borrow().iter().map(|(k, v)| ((*k).to_owned(), *v)).collect(),
        dispatch_times: core.dispatch_times.borrow().clone(),
        sched_digest: core.sched_digest.get(),
        sched_trace: core.sched_trace.borrow().clone(),
        max_in_callbacks: ctx.max_in_callbacks.get(),
    };
    Ok(h)
}

impl History {
    /// Digest over everything observable (determinism check).
    pub fn digest(&self) -> u64 {
        let mut h = core::FNV_INIT;
        for e in &self.events {
            core::fnv(&mut h, e.k.tag().as_bytes());
            core::fnv(&mut h, &e.at.to_le_bytes());
            if let Some(s) = &e.scenario {
                core::fnv(&mut h, s.as_bytes());
            }
            if let Some(r) = e.retries {
                core::fnv(&mut h, &(r.0 as u64).to_le_bytes());
            }
        }
        for c in &self.cb {
            core::fnv(&mut h, c.site.as_bytes());
            core::fnv(&mut h, &c.enter.to_le_bytes());
            core::fnv(&mut h, &c.exit.unwrap_or(0).to_le_bytes());
            core::fnv(&mut h, &c.world.unwrap_or(u64::MAX).to_le_bytes());
        }
        core::fnv(&mut h, &self.sched_digest.to_le_bytes());
        core::fnv(&mut h, format!("{:?}", self.end).as_bytes());
        h
    }
}
