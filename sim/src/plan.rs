//! `Plan`: explicit, serialisable description of one simulated run
//! (workload + faults + configuration + scheduler knobs).

use std::collections::BTreeMap;

use serde::{Deserialize, Serialize};

use crate::core::SchedKnobs;

#[derive(Clone, Copy, Debug, PartialEq, Eq, Serialize, Deserialize)]
pub enum Kw {
    Given,
    When,
    Then,
}

impl Kw {
    pub fn as_str(self) -> &'static str {
        match self {
            Kw::Given => "Given",
            Kw::When => "When",
            Kw::Then => "Then",
        }
    }
}

/// How many step definitions match a step.
#[derive(Clone, Copy, Debug, PartialEq, Eq, Serialize, Deserialize)]
pub enum Def {
    One,
    None,
    Two,
}

#[derive(Clone, Debug, Serialize, Deserialize)]
pub struct StepSpec {
    pub kw: Kw,
    /// Unique text (also the behaviour site key `step:<text>`).
    pub text: String,
    pub def: Def,
    /// Optional doc string (reporters).
    #[serde(default)]
    pub doc: Option<String>,
}

#[derive(Clone, Debug, Serialize, Deserialize)]
pub struct ScenarioSpec {
    pub name: String,
    pub tags: Vec<String>,
    pub steps: Vec<StepSpec>,
    /// `Some(values)`: a Scenario Outline with one Examples table, column `v`.
    /// The name and every step text get ` <v>` appended in the Gherkin source.
    #[serde(default)]
    pub examples: Option<Vec<String>>,
    /// Name the scenario shows (several scenarios may share it); `name` stays the harness's identity
    /// of the scenario and travels in a `sid.<name>` tag. Never set for outlines.
    #[serde(default, skip_serializing_if = "Option::is_none")]
    pub display: Option<String>,
    /// Outlines only: tags on the `Examples:` block (inherited by every expanded scenario) ...
    #[serde(default, skip_serializing_if = "Vec::is_empty")]
    pub examples_tags: Vec<String>,
    /// ... and whether an `Examples:` block without a table (rows not filled in yet) comes first.
    #[serde(default, skip_serializing_if = "std::ops::Not::not")]
    pub examples_empty_first: bool,
}

/// The harness's own evaluation of the few tag expressions it generates:
/// `[not] @a [and|or [not] @b]` over tags written without the `@`.
pub fn eval_tag_expr(expr: &str, tags: &[String]) -> bool {
    let toks: Vec<&str> = expr.split_whitespace().collect();
    let mut i = 0;
    let mut term = |i: &mut usize| -> bool {
        let neg = toks.get(*i) == Some(&"not");
        if neg {
            *i += 1;
        }
        let t = toks.get(*i).copied().unwrap_or("").trim_start_matches('@');
        *i += 1;
        let has = tags.iter().any(|x| x == t);
        has != neg
    };
    let mut v = term(&mut i);
    while let Some(op) = toks.get(i).copied() {
        i += 1;
        let r = term(&mut i);
        v = if op == "and" { v && r } else { v || r };
    }
    v
}

/// Tag prefix carrying a scenario's identity when its shown name is shared with others.
pub const SID_TAG: &str = "sid.";

/// Identity of a scenario as the harness knows it: its `sid.` tag if it has one, else its name.
pub fn scenario_identity(s: &cucumber::gherkin::Scenario) -> String {
    s.tags.iter().find_map(|t| t.strip_prefix(SID_TAG)).map_or_else(|| s.name.clone(), str::to_owned)
}

#[derive(Clone, Debug, Serialize, Deserialize)]
pub struct RuleSpec {
    pub name: String,
    pub tags: Vec<String>,
    pub background: Vec<StepSpec>,
    pub scenarios: Vec<ScenarioSpec>,
}

#[derive(Clone, Debug, Serialize, Deserialize)]
pub struct FeatureSpec {
    pub name: String,
    pub path: Option<String>,
    pub tags: Vec<String>,
    pub background: Vec<StepSpec>,
    pub scenarios: Vec<ScenarioSpec>,
    pub rules: Vec<RuleSpec>,
    /// Built as a custom `Parser` or gherkin's typed builders would: every position left at 0:0.
    #[serde(default, skip_serializing_if = "std::ops::Not::not")]
    pub positionless: bool,
}

#[derive(Clone, Debug, Serialize, Deserialize)]
pub enum ParserItemKind {
    /// Index into `Plan::features`.
    Feature(usize),
    /// I/O style parse error (`ParseFileError::Reading`).
    ErrReading(String),
    /// `ExampleExpansion` error.
    ErrExpansion(String),
}

#[derive(Clone, Debug, Serialize, Deserialize)]
pub struct ParserItem {
    pub kind: ParserItemKind,
    /// Virtual delay before the item becomes available (0 = immediately).
    pub delay_ns: u64,
    /// Number of self-waking `Pending`s returned before the item is yielded.
    pub pendings: u32,
}

#[derive(Clone, Copy, Debug, PartialEq, Eq, Serialize, Deserialize)]
pub enum Outcome {
    Pass,
    PanicString,
    PanicStr,
    PanicAny,
    /// Only meaningful for `World::new`: returns `Err`.
    Err,
}

impl Outcome {
    pub fn is_fault(self) -> bool {
        !matches!(self, Outcome::Pass)
    }
}

#[derive(Clone, Debug, Serialize, Deserialize)]
pub struct Behaviour {
    /// Await points: each a virtual duration (0 = hot yield).
    pub awaits: Vec<u64>,
    pub outcome: Outcome,
    /// tracing: number of log events emitted before the first and after the last await.
    #[serde(default)]
    pub logs: (u16, u16),
    /// A panicking callback panics in the synchronous part of the function, before the future it
    /// would return exists (hand-written step / hook functions and `World::new()` can do that).
    #[serde(default, skip_serializing_if = "std::ops::Not::not")]
    pub eager: bool,
}

impl Default for Behaviour {
    fn default() -> Self {
        Self { awaits: Vec::new(), outcome: Outcome::Pass, logs: (0, 0), eager: false }
    }
}

/// (A plain `Option<Option<usize>>` does not survive JSON: `Some(None)` and `None` are both `null`.)
#[derive(Clone, Copy, Debug, Default, PartialEq, Eq, Serialize, Deserialize)]
pub enum BuilderLimit {
    #[default]
    Unset,
    Unlimited,
    Limit(usize),
}

/// Lenient reader: replay files written before `BuilderLimit` existed hold `null` or a number.
fn de_builder_limit<'de, D: serde::Deserializer<'de>>(d: D) -> Result<BuilderLimit, D::Error> {
    let v = serde_json::Value::deserialize(d)?;
    Ok(match v {
        serde_json::Value::Null => BuilderLimit::Unset,
        serde_json::Value::Number(n) => BuilderLimit::Limit(n.as_u64().unwrap_or(64) as usize),
        serde_json::Value::String(s) if s == "Unlimited" => BuilderLimit::Unlimited,
        serde_json::Value::String(_) => BuilderLimit::Unset,
        serde_json::Value::Object(m) => m.get("Limit").and_then(serde_json::Value::as_u64).map_or(BuilderLimit::Unset, |n| BuilderLimit::Limit(n as usize)),
        _ => BuilderLimit::Unset,
    })
}

#[derive(Clone, Debug, Default, Serialize, Deserialize)]
pub struct RunnerCfg {
    pub cli_concurrency: Option<usize>,
    /// Builder's `max_concurrent_scenarios`: not called (default 64), unlimited, or a limit.
    #[serde(default, deserialize_with = "de_builder_limit")]
    pub builder_concurrency: BuilderLimit,
    pub cli_retry: Option<usize>,
    pub builder_retries: Option<usize>,
    pub cli_retry_after_ns: Option<u64>,
    pub builder_retry_after_ns: Option<u64>,
    pub cli_fail_fast: bool,
    pub builder_fail_fast: bool,
    /// Use a custom `which_scenario`: serial iff scenario name ends with `_SER`.
    pub custom_which: bool,
    /// Use `.retry_options(closure)`: closure returns `Some(n, after)` for scenarios whose
    /// name is in `closure_retry`.
    pub closure_retry: Option<BTreeMap<String, (usize, Option<u64>)>>,
    /// `--retry-tag-filter` / `.retry_filter()`: tag expressions deciding which scenarios without a
    /// `@retry` tag of their own get the configured retries.
    #[serde(default, skip_serializing_if = "Option::is_none")]
    pub cli_retry_filter: Option<String>,
    #[serde(default, skip_serializing_if = "Option::is_none")]
    pub builder_retry_filter: Option<String>,
    /// `--tags`: only scenarios whose inherited tags satisfy the expression are handed to the runner
    /// (world P gives it to `Cucumber` as `cli::Opts::tags_filter`, world A applies it in its parser).
    #[serde(default, skip_serializing_if = "Option::is_none")]
    pub tags_filter: Option<String>,
}

impl RunnerCfg {
    pub fn limit(&self) -> Option<usize> {
        self.cli_concurrency.or(match self.builder_concurrency {
            BuilderLimit::Unset => Some(64),
            BuilderLimit::Unlimited => None,
            BuilderLimit::Limit(n) => Some(n),
        })
    }
    pub fn fail_fast(&self) -> bool {
        self.cli_fail_fast || self.builder_fail_fast
    }
}

#[derive(Clone, Debug, Default, Serialize, Deserialize)]
pub struct WriterCfg {
    /// Index into the writer zoo (world B / C).
    pub stack: u32,
    pub fail_on_skipped: u8, // 0 none, 1 default predicate, 2 custom predicate (name contains "FOS")
    pub repeat: u8,          // 0 none, 1 skipped, 2 failed
    pub slow_pm: u32,        // slow-writer probability per event, per mille
    pub short_write_pm: u32,
    pub eintr_pm: u32,
    pub verbosity: u8,
    pub report_time: bool,
    pub show_output: bool,
    pub sink_seed: u64,
    /// Name filter regex / tag expression (world B, minority of runs).
    #[serde(default)]
    pub name_filter: Option<String>,
    #[serde(default)]
    pub tags_filter: Option<String>,
    /// Worlds C / R: feed the writers with the raw stream of a real simulated run of
    /// `runner::Basic` (through the whole pipeline) instead of a synthetic history.
    #[serde(default)]
    pub real_runner: bool,
}

#[derive(Clone, Debug, Serialize, Deserialize)]
pub struct Plan {
    pub seed: u64,
    pub features: Vec<FeatureSpec>,
    pub items: Vec<ParserItem>,
    pub before_hook: bool,
    pub after_hook: bool,
    pub cfg: RunnerCfg,
    /// site -> behaviours by invocation ordinal (missing = pass, no await).
    pub behaviours: BTreeMap<String, Vec<Behaviour>>,
    pub sched: SchedKnobs,
    #[serde(default)]
    pub writer: WriterCfg,
    /// tracing collector installed (tracing build only).
    #[serde(default)]
    pub tracing: bool,
    /// World A plans only: drive the runner through the `Cucumber` builder and `filter_run`
    /// (world P, src/runp.rs) instead of polling `runner::Basic::run` directly.
    #[serde(default, skip_serializing_if = "std::ops::Not::not")]
    pub pipeline: bool,
    /// (feature index, rule index): every scenario of these rules is rejected by the run's filter
    /// (the rule itself stays in its feature, empty). World A applies the filter in its parser,
    /// world P hands it to `Cucumber::filter_run` as the filter closure.
    #[serde(default, skip_serializing_if = "Vec::is_empty")]
    pub filtered_rules: Vec<(usize, usize)>,
    /// Tracing runs: the subscriber's global filter enables the user's own targets only (the usual
    /// `RUST_LOG=my_app=info`), which disables cucumber's spans: no scenario id can be found, every log
    /// goes to "all scenarios in progress" - such plans run one scenario at a time.
    #[serde(default, skip_serializing_if = "std::ops::Not::not")]
    pub tracing_targets_only: bool,
    /// Tracing runs: some callbacks hand a clone of their span to a helper that outlives the callback
    /// (a spawned task / thread instrumented with the step's span, as the book recommends): it logs
    /// once more after the callback has returned - on the simulator's thread or on a real helper
    /// thread run in strict hand-off - and only then lets the span close. The runner is to wait for
    /// that close before it reports the step's / hook's result.
    #[serde(default, skip_serializing_if = "std::ops::Not::not")]
    pub late_logs: bool,
    /// Tracing runs: user code opens no span of its own (every log is a plain event inside the span
    /// cucumber made for the step / hook) - so every span that ever closes is one the runner waits for.
    #[serde(default, skip_serializing_if = "std::ops::Not::not")]
    pub plain_logs: bool,
    /// Tracing runs: some steps await a nested in-memory run of the same crate (its own runner::Basic without a
    /// collector) whose steps log: such a log is emitted inside scenario(outer) > step > scenario(nested) > step
    /// and is owed to the OUTER step.
    #[serde(default, skip_serializing_if = "std::ops::Not::not")]
    pub nested_runs: bool,
}

/// Whether every feature, rule and scenario of the plan differs from every other in its name (and no feature
/// is handed over twice, none is position-less): then an entity is identified by address + name even when
/// addresses are reused.
pub fn entities_distinct(plan: &Plan) -> bool {
    let mut seen = std::collections::BTreeSet::new();
    let mut handed = std::collections::BTreeSet::new();
    for it in &plan.items {
        if let ParserItemKind::Feature(i) = &it.kind {
            if !handed.insert(*i) {
                return false;
            }
        }
    }
    for f in &plan.features {
        if f.positionless || !seen.insert(format!("F|{}", f.name)) {
            return false;
        }
        for s in &f.scenarios {
            if !seen.insert(format!("S|{}", s.display.as_deref().unwrap_or(&s.name))) {
                return false;
            }
        }
        for r in &f.rules {
            if !seen.insert(format!("R|{}|{}", f.name, r.name)) {
                return false;
            }
            for s in &r.scenarios {
                if !seen.insert(format!("S|{}", s.display.as_deref().unwrap_or(&s.name))) {
                    return false;
                }
            }
        }
    }
    true
}

pub const SITE_WORLD: &str = "world";

pub fn site_step(text: &str) -> String {
    format!("step:{text}")
}
pub fn site_before(scn: &str) -> String {
    format!("before:{scn}")
}
pub fn site_after(scn: &str) -> String {
    format!("after:{scn}")
}

impl Plan {
    pub fn behaviour(&self, site: &str, ordinal: usize) -> Behaviour {
        self.behaviours.get(site).and_then(|v| v.get(ordinal)).cloned().unwrap_or_default()
    }
}

// ---------------------------------------------------------------------------------------------
// Feature construction: the `gherkin::Feature` value is built directly (the Gherkin text
// parser is not part of any claimed property), together with the equivalent Gherkin text
// whose line numbers the value's positions carry.

use cucumber::gherkin as gh;

struct Emit {
    text: String,
    line: usize,
}

impl Emit {
    fn ln(&mut self, s: &str) -> usize {
        self.text.push_str(s);
        self.text.push('\n');
        self.line += 1;
        self.line
    }
    fn tags(&mut self, indent: &str, tags: &[String]) {
        if !tags.is_empty() {
            let l = format!("{indent}{}", tags.iter().map(|t| format!("@{t}")).collect::<Vec<_>>().join(" "));
            self.ln(&l);
        }
    }
    fn steps(&mut self, indent: &str, steps: &[StepSpec], suffix: &str) -> Vec<gh::Step> {
        let mut out = Vec::new();
        for s in steps {
            let line = self.ln(&format!("{indent}{} {}{suffix}", s.kw.as_str(), s.text));
            if let Some(d) = &s.doc {
                self.ln(&format!("{indent}  \"\"\""));
                for l in d.lines() {
                    self.ln(&format!("{indent}  {l}"));
                }
                self.ln(&format!("{indent}  \"\"\""));
            }
            out.push(gh::Step {
                keyword: format!("{} ", s.kw.as_str()),
                ty: match s.kw {
                    Kw::Given => gh::StepType::Given,
                    Kw::When => gh::StepType::When,
                    Kw::Then => gh::StepType::Then,
                },
                value: format!("{}{suffix}", s.text),
                docstring: s.doc.as_ref().map(|d| format!("\n{d}\n")),
                table: None,
                span: gh::Span::default(),
                position: gh::LineCol { line, col: indent.len() + 1 },
            });
        }
        out
    }
    fn background(&mut self, indent: &str, steps: &[StepSpec]) -> Option<gh::Background> {
        if steps.is_empty() {
            return None;
        }
        self.ln("");
        let line = self.ln(&format!("{indent}Background:"));
        let steps = self.steps(&format!("{indent}  "), steps, "");
        Some(gh::Background {
            keyword: "Background".into(),
            name: String::new(),
            description: None,
            steps,
            span: gh::Span::default(),
            position: gh::LineCol { line, col: indent.len() + 1 },
        })
    }
    fn scenario(&mut self, indent: &str, s: &ScenarioSpec) -> gh::Scenario {
        self.ln("");
        let mut all_tags = s.tags.clone();
        if s.display.is_some() && s.examples.is_none() {
            all_tags.push(format!("{SID_TAG}{}", s.name));
        }
        self.tags(indent, &all_tags);
        match &s.examples {
            None => {
                let shown = s.display.clone().unwrap_or_else(|| s.name.clone());
                let line = self.ln(&format!("{indent}Scenario: {shown}"));
                let steps = self.steps(&format!("{indent}  "), &s.steps, "");
                gh::Scenario {
                    keyword: "Scenario".into(),
                    name: shown,
                    description: None,
                    steps,
                    examples: Vec::new(),
                    tags: all_tags.clone(),
                    span: gh::Span::default(),
                    position: gh::LineCol { line, col: indent.len() + 1 },
                }
            }
            Some(vals) => {
                let line = self.ln(&format!("{indent}Scenario Outline: {} <v>", s.name));
                let steps = self.steps(&format!("{indent}  "), &s.steps, " <v>");
                let mut blocks = Vec::new();
                if s.examples_empty_first {
                    self.ln("");
                    let l = self.ln(&format!("{indent}  Examples:"));
                    blocks.push(gh::Examples {
                        keyword: "Examples".into(),
                        name: None,
                        description: None,
                        table: None,
                        tags: Vec::new(),
                        span: gh::Span::default(),
                        position: gh::LineCol { line: l, col: indent.len() + 3 },
                    });
                }
                self.ln("");
                self.tags(&format!("{indent}  "), &s.examples_tags);
                let ex_line = self.ln(&format!("{indent}  Examples:"));
                let t_line = self.ln(&format!("{indent}    | v |"));
                let mut rows = vec![vec!["v".to_owned()]];
                for v in vals {
                    self.ln(&format!("{indent}    | {v} |"));
                    rows.push(vec![v.clone()]);
                }
                gh::Scenario {
                    keyword: "Scenario Outline".into(),
                    name: format!("{} <v>", s.name),
                    description: None,
                    steps,
                    examples: {
                        blocks.push(gh::Examples {
                            keyword: "Examples".into(),
                            name: None,
                            description: None,
                            table: Some(gh::Table {
                                rows,
                                span: gh::Span::default(),
                                position: gh::LineCol { line: t_line, col: indent.len() + 5 },
                            }),
                            tags: s.examples_tags.clone(),
                            span: gh::Span::default(),
                            position: gh::LineCol { line: ex_line, col: indent.len() + 3 },
                        });
                        blocks
                    },
                    tags: s.tags.clone(),
                    span: gh::Span::default(),
                    position: gh::LineCol { line, col: indent.len() + 1 },
                }
            }
        }
    }
}

impl FeatureSpec {
    /// Builds the (unexpanded) `gherkin::Feature` value and its Gherkin text.
    pub fn build(&self) -> (gh::Feature, String) {
        let mut e = Emit { text: String::new(), line: 0 };
        e.tags("", &self.tags);
        let line = e.ln(&format!("Feature: {}", self.name));
        let background = e.background("  ", &self.background);
        let scenarios = self.scenarios.iter().map(|s| e.scenario("  ", s)).collect();
        let mut rules = Vec::new();
        for r in &self.rules {
            e.ln("");
            e.tags("  ", &r.tags);
            let rline = e.ln(&format!("  Rule: {}", r.name));
            let rbg = e.background("    ", &r.background);
            let scs = r.scenarios.iter().map(|s| e.scenario("    ", s)).collect();
            rules.push(gh::Rule {
                keyword: "Rule".into(),
                name: r.name.clone(),
                description: None,
                background: rbg,
                scenarios: scs,
                tags: r.tags.clone(),
                span: gh::Span::default(),
                position: gh::LineCol { line: rline, col: 3 },
            });
        }
        let f = gh::Feature {
            keyword: "Feature".into(),
            name: self.name.clone(),
            description: None,
            background,
            scenarios,
            rules,
            tags: self.tags.clone(),
            span: gh::Span::default(),
            position: gh::LineCol { line, col: 1 },
            path: self.path.as_ref().map(std::path::PathBuf::from),
        };
        (f, e.text)
    }

    pub fn gherkin(&self) -> String {
        self.build().1
    }
}

/// Expanded (post-outline) scenario name / step text as the runner will see them.
pub fn expanded_names(s: &ScenarioSpec) -> Vec<(String, Vec<String>)> {
    match &s.examples {
        None => vec![(s.name.clone(), s.steps.iter().map(|st| st.text.clone()).collect())],
        Some(vals) => vals
            .iter()
            .map(|v| {
                (
                    format!("{} {v}", s.name),
                    s.steps.iter().map(|st| format!("{} {v}", st.text)).collect(),
                )
            })
            .collect(),
    }
}
