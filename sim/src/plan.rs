//! `Plan`: explicit, serialisable description of one simulated run
//! (workload + faults + configuration + scheduler knobs).

use std::collections::BTreeMap;

use serde::{Deserialize, Serialize};

use crate::core::SchedKnobs;

#[derive(Clone, Copy, Debug, PartialEq, Eq, Serialize, Deserialize)]
pub enum Kw {
    Given,
    When,
    Then,
}

impl Kw {
    pub fn as_str(self) -> &'static str {
        match self {
            Kw::Given => "Given",
            Kw::When => "When",
            Kw::Then => "Then",
        }
    }
}

/// How many step definitions match a step.
#[derive(Clone, Copy, Debug, PartialEq, Eq, Serialize, Deserialize)]
pub enum Def {
    One,
    None,
    Two,
}

#[derive(Clone, Debug, Serialize, Deserialize)]
pub struct StepSpec {
    pub kw: Kw,
    /// Unique text (also the behaviour site key `step:<text>`).
    pub text: String,
    pub def: Def,
    /// Optional doc string (reporters).
    #[serde(default)]
    pub doc: Option<String>,
}

#[derive(Clone, Debug, Serialize, Deserialize)]
pub struct ScenarioSpec {
    pub name: String,
    pub tags: Vec<String>,
    pub steps: Vec<StepSpec>,
    /// `Some(values)`: a Scenario Outline with one Examples table, column `v`.
    /// The name and every step text get ` <v>` appended in the Gherkin source.
    #[serde(default)]
    pub examples: Option<Vec<String>>,
}

#[derive(Clone, Debug, Serialize, Deserialize)]
pub struct RuleSpec {
    pub name: String,
    pub tags: Vec<String>,
    pub background: Vec<StepSpec>,
    pub scenarios: Vec<ScenarioSpec>,
}

#[derive(Clone, Debug, Serialize, Deserialize)]
pub struct FeatureSpec {
    pub name: String,
    pub path: Option<String>,
    pub tags: Vec<String>,
    pub background: Vec<StepSpec>,
    pub scenarios: Vec<ScenarioSpec>,
    pub rules: Vec<RuleSpec>,
}

#[derive(Clone, Debug, Serialize, Deserialize)]
pub enum ParserItemKind {
    /// Index into `Plan::features`.
    Feature(usize),
    /// I/O style parse error (`ParseFileError::Reading`).
    ErrReading(String),
    /// `ExampleExpansion` error.
    ErrExpansion(String),
}

#[derive(Clone, Debug, Serialize, Deserialize)]
pub struct ParserItem {
    pub kind: ParserItemKind,
    /// Virtual delay before the item becomes available (0 = immediately).
    pub delay_ns: u64,
    /// Number of self-waking `Pending`s returned before the item is yielded.
    pub pendings: u32,
}

#[derive(Clone, Copy, Debug, PartialEq, Eq, Serialize, Deserialize)]
pub enum Outcome {
    Pass,
    PanicString,
    PanicStr,
    PanicAny,
    /// Only meaningful for `World::new`: returns `Err`.
    Err,
}

impl Outcome {
    pub fn is_fault(self) -> bool {
        !matches!(self, Outcome::Pass)
    }
}

#[derive(Clone, Debug, Serialize, Deserialize)]
pub struct Behaviour {
    /// Await points: each a virtual duration (0 = hot yield).
    pub awaits: Vec<u64>,
    pub outcome: Outcome,
    /// tracing: number of log events emitted before the first and after the last await.
    #[serde(default)]
    pub logs: (u8, u8),
}

impl Default for Behaviour {
    fn default() -> Self {
        Self { awaits: Vec::new(), outcome: Outcome::Pass, logs: (0, 0) }
    }
}

#[derive(Clone, Debug, Default, Serialize, Deserialize)]
pub struct RunnerCfg {
    pub cli_concurrency: Option<usize>,
    /// `None` = builder not called (default 64); `Some(None)` = unlimited.
    pub builder_concurrency: Option<Option<usize>>,
    pub cli_retry: Option<usize>,
    pub builder_retries: Option<usize>,
    pub cli_retry_after_ns: Option<u64>,
    pub builder_retry_after_ns: Option<u64>,
    pub cli_fail_fast: bool,
    pub builder_fail_fast: bool,
    /// Use a custom `which_scenario`: serial iff scenario name ends with `_SER`.
    pub custom_which: bool,
    /// Use `.retry_options(closure)`: closure returns `Some(n, after)` for scenarios whose
    /// name is in `closure_retry`.
    pub closure_retry: Option<BTreeMap<String, (usize, Option<u64>)>>,
}

impl RunnerCfg {
    pub fn limit(&self) -> Option<usize> {
        self.cli_concurrency.or(match self.builder_concurrency {
            None => Some(64),
            Some(v) => v,
        })
    }
    pub fn fail_fast(&self) -> bool {
        self.cli_fail_fast || self.builder_fail_fast
    }
}

#[derive(Clone, Debug, Default, Serialize, Deserialize)]
pub struct WriterCfg {
    /// Index into the writer zoo (world B / C).
    pub stack: u32,
    pub fail_on_skipped: u8, // 0 none, 1 default predicate, 2 custom predicate (name contains "FOS")
    pub repeat: u8,          // 0 none, 1 skipped, 2 failed
    pub slow_pm: u32,        // slow-writer probability per event, per mille
    pub short_write_pm: u32,
    pub eintr_pm: u32,
    pub verbosity: u8,
    pub report_time: bool,
    pub show_output: bool,
    pub sink_seed: u64,
    /// Name filter regex / tag expression (world B, minority of runs).
    #[serde(default)]
    pub name_filter: Option<String>,
    #[serde(default)]
    pub tags_filter: Option<String>,
}

#[derive(Clone, Debug, Serialize, Deserialize)]
pub struct Plan {
    pub seed: u64,
    pub features: Vec<FeatureSpec>,
    pub items: Vec<ParserItem>,
    pub before_hook: bool,
    pub after_hook: bool,
    pub cfg: RunnerCfg,
    /// site -> behaviours by invocation ordinal (missing = pass, no await).
    pub behaviours: BTreeMap<String, Vec<Behaviour>>,
    pub sched: SchedKnobs,
    #[serde(default)]
    pub writer: WriterCfg,
    /// tracing collector installed (tracing build only).
    #[serde(default)]
    pub tracing: bool,
}

pub const SITE_WORLD: &str = "world";

pub fn site_step(text: &str) -> String {
    format!("step:{text}")
}
pub fn site_before(scn: &str) -> String {
    format!("before:{scn}")
}
pub fn site_after(scn: &str) -> String {
    format!("after:{scn}")
}

impl Plan {
    pub fn behaviour(&self, site: &str, ordinal: usize) -> Behaviour {
        self.behaviours.get(site).and_then(|v| v.get(ordinal)).cloned().unwrap_or_default()
    }
}

// ---------------------------------------------------------------------------------------------
// Gherkin text generation

fn tags_line(indent: &str, tags: &[String]) -> String {
    if tags.is_empty() {
        String::new()
    } else {
        format!("{indent}{}\n", tags.iter().map(|t| format!("@{t}")).collect::<Vec<_>>().join(" "))
    }
}

fn step_lines(out: &mut String, indent: &str, steps: &[StepSpec], suffix: &str) {
    for s in steps {
        out.push_str(&format!("{indent}{} {}{suffix}\n", s.kw.as_str(), s.text));
        if let Some(d) = &s.doc {
            out.push_str(&format!("{indent}  \"\"\"\n"));
            for l in d.lines() {
                out.push_str(&format!("{indent}  {l}\n"));
            }
            out.push_str(&format!("{indent}  \"\"\"\n"));
        }
    }
}

fn scenario_text(out: &mut String, indent: &str, s: &ScenarioSpec) {
    out.push('\n');
    out.push_str(&tags_line(indent, &s.tags));
    match &s.examples {
        None => {
            out.push_str(&format!("{indent}Scenario: {}\n", s.name));
            step_lines(out, &format!("{indent}  "), &s.steps, "");
        }
        Some(vals) => {
            out.push_str(&format!("{indent}Scenario Outline: {} <v>\n", s.name));
            step_lines(out, &format!("{indent}  "), &s.steps, " <v>");
            out.push('\n');
            out.push_str(&format!("{indent}  Examples:\n{indent}    | v |\n"));
            for v in vals {
                out.push_str(&format!("{indent}    | {v} |\n"));
            }
        }
    }
}

impl FeatureSpec {
    pub fn gherkin(&self) -> String {
        let mut out = String::new();
        out.push_str(&tags_line("", &self.tags));
        out.push_str(&format!("Feature: {}\n", self.name));
        if !self.background.is_empty() {
            out.push_str("\n  Background:\n");
            step_lines(&mut out, "    ", &self.background, "");
        }
        for s in &self.scenarios {
            scenario_text(&mut out, "  ", s);
        }
        for r in &self.rules {
            out.push('\n');
            out.push_str(&tags_line("  ", &r.tags));
            out.push_str(&format!("  Rule: {}\n", r.name));
            if !r.background.is_empty() {
                out.push_str("\n    Background:\n");
                step_lines(&mut out, "      ", &r.background, "");
            }
            for s in &r.scenarios {
                scenario_text(&mut out, "    ", s);
            }
        }
        out
    }
}

/// Expanded (post-outline) scenario name / step text as the runner will see them.
pub fn expanded_names(s: &ScenarioSpec) -> Vec<(String, Vec<String>)> {
    match &s.examples {
        None => vec![(s.name.clone(), s.steps.iter().map(|st| st.text.clone()).collect())],
        Some(vals) => vals
            .iter()
            .map(|v| {
                (
                    format!("{} {v}", s.name),
                    s.steps.iter().map(|st| format!("{} {v}", st.text)).collect(),
                )
            })
            .collect(),
    }
}
