//! Instrumented `World`, the single generic step function, hook functions and
//! the callback log. All state lives in a thread-local `RunCtx` because step
//! functions, `World::new` and (for one monomorphisation) hooks are plain `fn`s.

use std::{
    cell::{Cell, RefCell},
    collections::BTreeMap,
    panic,
    rc::Rc,
};

use cucumber::{event, gherkin, step::Context};
use futures::future::LocalBoxFuture;
use serde::{Deserialize, Serialize};

use crate::{
    core::{LABEL_USER, SimCore},
    plan::{Behaviour, Outcome, Plan, SITE_WORLD, site_after, site_before, site_step},
};

/// Arbitrary (non-string) panic payload.
#[derive(Debug)]
pub struct CustomPayload(pub String);

#[derive(Clone, Debug, PartialEq, Eq, Serialize, Deserialize)]
pub enum CbKind {
    WorldNew,
    Before,
    Step,
    After,
}

#[derive(Clone, Debug, Serialize, Deserialize)]
pub struct CbEntry {
    pub kind: CbKind,
    pub site: String,
    pub ordinal: usize,
    /// World instance the callback ran on (for `WorldNew`: the id it created, if any).
    pub world: Option<u64>,
    /// `World.counter` observed on entry, and number of callbacks in its trail on entry.
    pub counter_on_entry: Option<(u64, u64)>,
    pub enter: u64,
    pub exit: Option<u64>,
    pub outcome: Outcome,
    /// Unique token carried by the injected fault, if one fired.
    pub token: Option<String>,
    /// After hook only: rendered `ScenarioFinished` it received.
    pub finished_arg: Option<String>,
    /// Hooks only: scenario name passed to the hook.
    pub scenario: Option<String>,
    /// tracing: tokens of log events emitted by this callback.
    pub log_tokens: Vec<String>,
    /// The fault fired in the synchronous part of the function (no future was returned).
    #[serde(default)]
    pub eager: bool,
}

#[derive(Debug)]
pub struct SimWorld {
    pub id: u64,
    pub counter: u64,
    pub trail: Vec<usize>, // indices into cb_log
}

pub struct RunCtx {
    pub core: Rc<SimCore>,
    pub plan: Rc<Plan>,
    pub cb_log: RefCell<Vec<CbEntry>>,
    ordinals: RefCell<BTreeMap<String, usize>>,
    next_world: Cell<u64>,
    next_token: Cell<u64>,
    /// Callbacks entered and not exited (user code in progress).
    pub in_callbacks: Cell<u32>,
    pub max_in_callbacks: Cell<u32>,
    pub emit_logs: bool,
    /// tracing runs: the subscriber filters at WARN instead of INFO.
    pub warn_filter: bool,
    /// tracing runs: span of a callback that is awaiting right now and index of its log entry - a
    /// "helper task" (the event stream's consumer, running outside every scenario span) may log on
    /// its behalf, through a span whose parent is given explicitly.
    #[cfg(feature = "tracing")]
    pub behalf: RefCell<Option<(tracing::Span, usize)>>,
    /// tracing runs (`Plan.late_logs`): spans of callbacks that have returned, kept alive by a helper
    /// which logs once more inside them before letting them close (index of the callback's log entry).
    #[cfg(feature = "tracing")]
    pub detained: RefCell<std::collections::VecDeque<(tracing::Span, usize)>>,
    /// Waker of the helper task while it has nothing to do.
    #[cfg(feature = "tracing")]
    pub helper_waker: RefCell<Option<std::task::Waker>>,
}

thread_local! {
    static RUN: RefCell<Option<Rc<RunCtx>>> = const { RefCell::new(None) };
}

/// A quarter of the tracing runs install their subscriber with a WARN filter.
pub fn warn_filter_of(plan: &Plan) -> bool {
    plan.seed % 4 == 2
}

pub fn install_run(core: &Rc<SimCore>, plan: &Rc<Plan>, emit_logs: bool) -> Rc<RunCtx> {
    let ctx = Rc::new(RunCtx {
        core: Rc::clone(core),
        plan: Rc::clone(plan),
        cb_log: RefCell::new(Vec::new()),
        ordinals: RefCell::new(BTreeMap::new()),
        next_world: Cell::new(0),
        next_token: Cell::new(0),
        in_callbacks: Cell::new(0),
        max_in_callbacks: Cell::new(0),
        emit_logs,
        warn_filter: emit_logs && warn_filter_of(plan),
        #[cfg(feature = "tracing")]
        behalf: RefCell::new(None),
        #[cfg(feature = "tracing")]
        detained: RefCell::new(std::collections::VecDeque::new()),
        #[cfg(feature = "tracing")]
        helper_waker: RefCell::new(None),
    });
    RUN.with(|r| *r.borrow_mut() = Some(Rc::clone(&ctx)));
    ctx
}

pub fn uninstall_run() {
    RUN.with(|r| *r.borrow_mut() = None);
}

pub fn run_ctx() -> Rc<RunCtx> {
    RUN.with(|r| r.borrow().clone()).expect("harness: no RunCtx installed")
}

impl RunCtx {
    fn next_ordinal(&self, site: &str) -> usize {
        let mut o = self.ordinals.borrow_mut();
        let e = o.entry(site.to_owned()).or_insert(0);
        let v = *e;
        *e += 1;
        v
    }
    fn peek_ordinal(&self, site: &str) -> usize {
        self.ordinals.borrow().get(site).copied().unwrap_or(0)
    }
    fn new_token(&self) -> String {
        let t = self.next_token.get();
        self.next_token.set(t + 1);
        format!("tok{t}x")
    }
}

fn static_token(tok: &str) -> &'static str {
    // `&'static str` payloads need a 'static string: leak it (a few bytes per fired fault).
    Box::leak(tok.to_owned().into_boxed_str())
}

fn fire(outcome: Outcome, token: &str) -> ! {
    match outcome {
        Outcome::PanicString => panic::panic_any(format!("boom {token}")),
        Outcome::PanicStr => panic::panic_any(static_token(&format!("boom {token}"))),
        Outcome::PanicAny => panic::panic_any(CustomPayload(token.to_owned())),
        Outcome::Pass | Outcome::Err => unreachable!(),
    }
}

#[cfg(feature = "tracing")]
fn emit_log(tok: &str) {
    // When the subscriber's filter is WARN (a quarter of the tracing runs) every generated event is a
    // warning - an `info!` would be filtered out, and no Log event is owed for it.
    if run_ctx().warn_filter {
        match tok.bytes().map(u32::from).sum::<u32>() % if run_ctx().plan.plain_logs { 2 } else { 3 } {
            0 => tracing::warn!("{tok}"),
            1 => tracing::error!("first line\nsecond line {tok}"),
            _ => tracing::warn_span!("user_inner", depth = 1).in_scope(|| tracing::warn!("inner span {tok}")),
        }
        return;
    }
    // message shapes: plain, multi-line, and containing the collector's `__` separator
    let shape = tok.bytes().map(u32::from).sum::<u32>() % 9;
    // (plans without user spans: the span-making shapes fall back to span-less ones)
    let shape = if run_ctx().plan.plain_logs && matches!(shape, 4 | 6 | 8) { shape - 3 } else { shape };
    match shape {
        0 => tracing::info!("{tok}"),
        // from a real helper thread that enters the callback's span (run in strict hand-off: this thread
        // blocks until the helper is done, so the schedule stays the simulator's)
        7 => {
            let here = tracing::Span::current();
            std::thread::scope(|s| {
                s.spawn(|| here.in_scope(|| tracing::info!("helper thread {tok}"))).join().expect("helper thread");
            });
        }
        // from a real helper thread, through a span of its own whose parent is given explicitly
        8 => {
            let here = tracing::Span::current();
            std::thread::scope(|s| {
                s.spawn(|| tracing::info_span!(parent: &here, "on_thread").in_scope(|| tracing::info!("helper thread explicit parent {tok}")))
                    .join()
                    .expect("helper thread");
            });
        }
        // from a span whose parent is given explicitly (the step / hook span), created while another,
        // detached span is the current one - what a helper task logging on behalf of the step does
        6 => {
            let here = tracing::Span::current();
            tracing::info_span!(parent: None, "detached_helper").in_scope(|| {
                tracing::info_span!(parent: &here, "on_behalf").in_scope(|| tracing::info!("explicit parent {tok}"));
            });
        }
        // from inside a span of the user's own, nested in the step / hook span
        4 => tracing::info_span!("user_inner", depth = 1).in_scope(|| tracing::warn!("inner span {tok}")),
        // structured fields instead of a plain message
        5 => tracing::info!(token = tok, answer = 42, "fields"),
        1 => tracing::info!("first line\nsecond line {tok}"),
        2 => tracing::info!("dunder __ inside __{tok}"),
        // the collector's own "no scenario" marker inside a user message (such messages were lost before fix 5b3df26)
        _ => tracing::info!("marker __unknown inside {tok}"),
    }
}
#[cfg(not(feature = "tracing"))]
fn emit_log(_tok: &str) {}

/// Synchronous part of every user function: if the behaviour that the coming call will get says
/// "panic eagerly", the call is recorded and panics here, before any future exists.
fn eager_fault(kind: CbKind, site: &str, world: Option<&mut SimWorld>, scenario: Option<String>, finished_arg: Option<String>) {
    let ctx = run_ctx();
    let beh = ctx.plan.behaviour(site, ctx.peek_ordinal(site));
    if !(beh.eager && beh.outcome.is_fault() && beh.outcome != Outcome::Err) {
        return;
    }
    let ordinal = ctx.next_ordinal(site);
    let now = ctx.core.now_ns();
    ctx.core.progress();
    let token = ctx.new_token();
    let idx = {
        let mut log = ctx.cb_log.borrow_mut();
        log.push(CbEntry {
            kind,
            site: site.to_owned(),
            ordinal,
            world: world.as_ref().map(|w| w.id),
            counter_on_entry: world.as_ref().map(|w| (w.counter, w.trail.len() as u64)),
            enter: now,
            exit: Some(now),
            outcome: beh.outcome,
            token: Some(token.clone()),
            finished_arg,
            scenario,
            log_tokens: Vec::new(),
            eager: true,
        });
        log.len() - 1
    };
    if let Some(w) = world {
        w.trail.push(idx);
        w.counter += 1;
    }
    ctx.max_in_callbacks.set(ctx.max_in_callbacks.get().max(ctx.in_callbacks.get() + 1));
    fire(beh.outcome, &token);
}

/// Called by the event stream's consumer (outside every scenario span): if some callback is awaiting
/// and offered its span, log once on its behalf through a child span with that explicit parent.
#[cfg(feature = "tracing")]
pub fn emit_on_behalf() {
    let Some(ctx) = RUN.with(|r| r.borrow().clone()) else { return };
    if ctx.plan.plain_logs {
        return;
    }
    let Some((span, idx)) = ctx.behalf.borrow_mut().take() else { return };
    if ctx.cb_log.borrow()[idx].exit.is_some() {
        return;
    }
    let t = format!("log{}", ctx.new_token());
    ctx.cb_log.borrow_mut()[idx].log_tokens.push(t.clone());
    if ctx.warn_filter {
        tracing::warn_span!(parent: &span, "on_behalf").in_scope(|| tracing::warn!("helper task {t}"));
    } else {
        tracing::info_span!(parent: &span, "on_behalf").in_scope(|| tracing::info!("helper task {t}"));
    }
}

/// The helper outliving a callback: logs once inside the callback's span (on this thread or on a real
/// helper thread in strict hand-off) and lets the span close there.
#[cfg(feature = "tracing")]
pub fn emit_late(span: tracing::Span, idx: usize, via_thread: bool) {
    let ctx = run_ctx();
    let t = format!("log{}", ctx.new_token());
    ctx.cb_log.borrow_mut()[idx].log_tokens.push(t.clone());
    let warn = ctx.warn_filter;
    let go = move || {
        span.in_scope(|| if warn { tracing::warn!("late helper {t}") } else { tracing::info!("late helper {t}") });
        drop(span);
    };
    if via_thread {
        std::thread::scope(|s| {
            s.spawn(go).join().expect("helper thread");
        });
    } else {
        go();
    }
}

/// A run of the crate nested inside a step: own World type, own `runner::Basic` (no collector: the global one
/// is the outer run's), one scenario whose steps log the given tokens.
#[cfg(feature = "tracing")]
mod nested {
    use cucumber::{Runner as _, World, gherkin, runner, step};
    use futures::{StreamExt as _, future::LocalBoxFuture};

    #[derive(Debug, Default)]
    pub struct NestedWorld;

    impl World for NestedWorld {
        type Error = std::convert::Infallible;
        async fn new() -> Result<Self, Self::Error> {
            Ok(Self)
        }
    }

    // (the token travels in the step's text: nested runs of several outer steps overlap)
    fn inner_step(_w: &mut NestedWorld, c: step::Context) -> LocalBoxFuture<'_, ()> {
        Box::pin(async move {
            let text = c.step.value.clone();
            let mut parts = text.split(' ').skip(2);
            let (t, warn) = (parts.next().unwrap_or("?").to_owned(), parts.next() == Some("warn"));
            if warn {
                tracing::warn!("nested run {t}");
            } else {
                tracing::info!("nested run {t}");
            }
        })
    }

    pub async fn run(tokens: Vec<String>, warn: bool) {
        let mut text = String::from("Feature: nested\n  Scenario: inner\n");
        for t in &tokens {
            text.push_str(&format!("    Given inner step {t}{}\n", if warn { " warn" } else { " info" }));
        }
        let feature = gherkin::Feature::parse(text, gherkin::GherkinEnv::default()).expect("harness: nested feature parses");
        let steps = step::Collection::new().given(None, regex::Regex::new("^inner step \\S+ \\w+$").expect("harness: regex"), inner_step);
        let runner = runner::Basic::<NestedWorld>::default().steps(steps).max_concurrent_scenarios(1);
        let mut events = runner.run(futures::stream::iter([Ok(feature)]), runner::basic::Cli::default());
        while events.next().await.is_some() {}
    }
}

struct InCb(Rc<RunCtx>);
impl Drop for InCb {
    fn drop(&mut self) {
        self.0.in_callbacks.set(self.0.in_callbacks.get() - 1);
    }
}

/// Common body of every user callback.
async fn callback(
    kind: CbKind,
    site: String,
    world: Option<&mut SimWorld>,
    scenario: Option<String>,
    finished_arg: Option<String>,
) {
    let ctx = run_ctx();
    #[cfg(feature = "tracing")]
    let is_step = kind == CbKind::Step;
    let ordinal = ctx.next_ordinal(&site);
    let beh: Behaviour = ctx.plan.behaviour(&site, ordinal);
    let enter = ctx.core.now_ns();
    ctx.core.progress();
    let idx = {
        let mut log = ctx.cb_log.borrow_mut();
        log.push(CbEntry {
            kind,
            site,
            ordinal,
            world: world.as_ref().map(|w| w.id),
            counter_on_entry: world.as_ref().map(|w| (w.counter, w.trail.len() as u64)),
            enter,
            exit: None,
            outcome: beh.outcome,
            token: None,
            finished_arg,
            scenario,
            log_tokens: Vec::new(),
            eager: false,
        });
        log.len() - 1
    };
    if let Some(w) = world {
        w.trail.push(idx);
        w.counter += 1;
    }
    ctx.in_callbacks.set(ctx.in_callbacks.get() + 1);
    ctx.max_in_callbacks.set(ctx.max_in_callbacks.get().max(ctx.in_callbacks.get()));
    let guard = InCb(Rc::clone(&ctx));

    let log_n = |n: u16| {
        if ctx.emit_logs {
            for _ in 0..n {
                let t = format!("log{}", ctx.new_token());
                ctx.cb_log.borrow_mut()[idx].log_tokens.push(t.clone());
                emit_log(&t);
            }
        }
    };
    log_n(beh.logs.0);
    // a nested run of the crate inside this step: its steps' logs belong to this step
    #[cfg(feature = "tracing")]
    if ctx.emit_logs && ctx.plan.nested_runs && is_step && (idx as u64 + ctx.plan.seed) % 3 == 0 {
        let toks: Vec<String> = (0..1 + idx % 2).map(|_| format!("log{}", ctx.new_token())).collect();
        ctx.cb_log.borrow_mut()[idx].log_tokens.extend(toks.iter().cloned());
        nested::run(toks, ctx.warn_filter).await;
    }
    #[cfg(feature = "tracing")]
    if ctx.emit_logs && !beh.awaits.is_empty() && idx % 3 == 0 {
        *ctx.behalf.borrow_mut() = Some((tracing::Span::current(), idx));
    }
    for d in &beh.awaits {
        if *d == 0 {
            ctx.core.yield_now().await;
        } else {
            ctx.core.sleep(*d, LABEL_USER).await;
        }
    }
    #[cfg(feature = "tracing")]
    {
        let mut b = ctx.behalf.borrow_mut();
        if b.as_ref().is_some_and(|(_, i)| *i == idx) {
            *b = None;
        }
    }
    log_n(beh.logs.1);
    // hand a clone of this callback's span to a helper that outlives the callback
    #[cfg(feature = "tracing")]
    if ctx.emit_logs && ctx.plan.late_logs && (idx as u64 + ctx.plan.seed) % 4 == 1 {
        let span = tracing::Span::current();
        if !span.is_none() {
            ctx.detained.borrow_mut().push_back((span, idx));
            if let Some(w) = ctx.helper_waker.borrow_mut().take() {
                w.wake();
            }
        }
    }

    let exit = ctx.core.now_ns();
    ctx.core.progress();
    let token = if beh.outcome.is_fault() && beh.outcome != Outcome::Err {
        Some(ctx.new_token())
    } else {
        None
    };
    {
        let mut log = ctx.cb_log.borrow_mut();
        log[idx].exit = Some(exit);
        log[idx].token = token.clone();
    }
    drop(guard);
    if let Some(t) = token {
        fire(beh.outcome, &t);
    }
}

impl cucumber::World for SimWorld {
    type Error = String;

    // (deliberately not an `async fn`: the synchronous part may panic, see `eager_fault`)
    #[allow(clippy::manual_async_fn)]
    fn new() -> impl Future<Output = Result<Self, String>> {
        eager_fault(CbKind::WorldNew, SITE_WORLD, None, None, None);
        Self::new_async()
    }
}

impl SimWorld {
    async fn new_async() -> Result<Self, String> {
        let ctx = run_ctx();
        let ordinal = ctx.next_ordinal(SITE_WORLD);
        let beh = ctx.plan.behaviour(SITE_WORLD, ordinal);
        let enter = ctx.core.now_ns();
        ctx.core.progress();
        let idx = {
            let mut log = ctx.cb_log.borrow_mut();
            log.push(CbEntry {
                kind: CbKind::WorldNew,
                site: SITE_WORLD.to_owned(),
                ordinal,
                world: None,
                counter_on_entry: None,
                enter,
                exit: None,
                outcome: beh.outcome,
                token: None,
                finished_arg: None,
                scenario: None,
                log_tokens: Vec::new(),
            eager: false,
            });
            log.len() - 1
        };
        ctx.in_callbacks.set(ctx.in_callbacks.get() + 1);
        ctx.max_in_callbacks.set(ctx.max_in_callbacks.get().max(ctx.in_callbacks.get()));
        let guard = InCb(Rc::clone(&ctx));
        // (a World constructor may log as well: it runs inside the before hook's or the first step's span)
        let log_n = |n: u16| {
            if ctx.emit_logs {
                for _ in 0..n.min(4) {
                    let t = format!("log{}", ctx.new_token());
                    ctx.cb_log.borrow_mut()[idx].log_tokens.push(t.clone());
                    emit_log(&t);
                }
            }
        };
        log_n(beh.logs.0);
        for d in &beh.awaits {
            if *d == 0 {
                ctx.core.yield_now().await;
            } else {
                ctx.core.sleep(*d, LABEL_USER).await;
            }
        }
        log_n(beh.logs.1);
        let exit = ctx.core.now_ns();
        ctx.core.progress();
        drop(guard);
        match beh.outcome {
            Outcome::Pass => {
                let id = ctx.next_world.get();
                ctx.next_world.set(id + 1);
                let mut log = ctx.cb_log.borrow_mut();
                log[idx].exit = Some(exit);
                log[idx].world = Some(id);
                Ok(SimWorld { id, counter: 0, trail: Vec::new() })
            }
            Outcome::Err => {
                let t = ctx.new_token();
                {
                    let mut log = ctx.cb_log.borrow_mut();
                    log[idx].exit = Some(exit);
                    log[idx].token = Some(t.clone());
                }
                Err(format!("werr {t}"))
            }
            o => {
                let t = ctx.new_token();
                {
                    let mut log = ctx.cb_log.borrow_mut();
                    log[idx].exit = Some(exit);
                    log[idx].token = Some(t.clone());
                }
                fire(o, &t)
            }
        }
    }
}

pub fn sim_step(w: &mut SimWorld, ctx: Context) -> LocalBoxFuture<'_, ()> {
    let site = site_step(&ctx.step.value);
    eager_fault(CbKind::Step, &site, Some(&mut *w), None, None);
    Box::pin(async move {
        callback(CbKind::Step, site, Some(w), None, None).await;
    })
}

pub fn before_fn<'a>(
    _f: &'a gherkin::Feature,
    _r: Option<&'a gherkin::Rule>,
    s: &'a gherkin::Scenario,
    w: &'a mut SimWorld,
) -> LocalBoxFuture<'a, ()> {
    let id = crate::plan::scenario_identity(s);
    eager_fault(CbKind::Before, &site_before(&id), Some(&mut *w), Some(id.clone()), None);
    Box::pin(async move {
        callback(CbKind::Before, site_before(&id), Some(w), Some(id.clone()), None).await;
    })
}

/// Renders the `ScenarioFinished` argument as `Kind` or `Kind(token-bearing text)`.
pub fn render_finished(ev: &event::ScenarioFinished) -> String {
    match ev {
        event::ScenarioFinished::BeforeHookFailed(info) => {
            format!("BeforeHookFailed({})", crate::record::payload_text(info))
        }
        event::ScenarioFinished::StepPassed => "StepPassed".into(),
        event::ScenarioFinished::StepSkipped => "StepSkipped".into(),
        event::ScenarioFinished::StepFailed(_, _, err) => {
            format!("StepFailed({})", crate::record::step_error_text(err))
        }
    }
}

pub fn after_fn<'a>(
    _f: &'a gherkin::Feature,
    _r: Option<&'a gherkin::Rule>,
    s: &'a gherkin::Scenario,
    fin: &'a event::ScenarioFinished,
    w: Option<&'a mut SimWorld>,
) -> LocalBoxFuture<'a, ()> {
    let mut w = w;
    let id = crate::plan::scenario_identity(s);
    eager_fault(CbKind::After, &site_after(&id), w.as_deref_mut(), Some(id.clone()), Some(render_finished(fin)));
    Box::pin(async move {
        let arg = render_finished(fin);
        callback(CbKind::After, site_after(&id), w, Some(id.clone()), Some(arg)).await;
    })
}
