//! Conversion of real `event::Cucumber<SimWorld>` values into plain, serialisable
//! records the oracles work on.

use cucumber::{
    Event,
    event::{self, Cucumber, Feature, Hook, HookType, Info, Rule, Scenario, Step, StepError},
    parser,
};
use cucumber::gherkin;
use serde::{Deserialize, Serialize};

use crate::{core::SimCore, world::{CustomPayload, SimWorld}};

#[derive(Clone, Copy, Debug, PartialEq, Eq, Hash, PartialOrd, Ord, Serialize, Deserialize)]
pub enum Hk {
    Before,
    After,
}

#[derive(Clone, Debug, PartialEq, Eq, Serialize, Deserialize)]
pub enum ErrK {
    NotFound,
    Ambiguous(usize),
    Panic,
}

#[derive(Clone, Debug, PartialEq, Eq, Serialize, Deserialize)]
pub enum K {
    RunStarted,
    ParsingFinished { features: usize, rules: usize, scenarios: usize, steps: usize, parser_errors: usize },
    RunFinished,
    ParseError(String),
    FeatureStarted,
    FeatureFinished,
    RuleStarted,
    RuleFinished,
    ScStarted,
    ScFinished,
    HookStarted(Hk),
    HookPassed(Hk),
    /// payload text, id of the World attached (if any)
    HookFailed(Hk, String, Option<u64>),
    StepStarted { bg: bool },
    StepPassed { bg: bool },
    StepSkipped { bg: bool },
    StepFailed { bg: bool, err: ErrK, payload: String, world: Option<u64>, has_captures: bool, has_loc: bool },
    Log(String),
}

impl K {
    /// Short tag used in digests and interleaving hashes.
    pub fn tag(&self) -> &'static str {
        match self {
            K::RunStarted => "RS",
            K::ParsingFinished { .. } => "PF",
            K::RunFinished => "RF",
            K::ParseError(_) => "PE",
            K::FeatureStarted => "FS",
            K::FeatureFinished => "FF",
            K::RuleStarted => "LS",
            K::RuleFinished => "LF",
            K::ScStarted => "SS",
            K::ScFinished => "SF",
            K::HookStarted(Hk::Before) => "BS",
            K::HookStarted(Hk::After) => "AS",
            K::HookPassed(Hk::Before) => "BP",
            K::HookPassed(Hk::After) => "AP",
            K::HookFailed(Hk::Before, ..) => "BF",
            K::HookFailed(Hk::After, ..) => "AF",
            K::StepStarted { bg: false } => "TS",
            K::StepStarted { bg: true } => "GS",
            K::StepPassed { bg: false } => "TP",
            K::StepPassed { bg: true } => "GP",
            K::StepSkipped { bg: false } => "TK",
            K::StepSkipped { bg: true } => "GK",
            K::StepFailed { bg: false, .. } => "TF",
            K::StepFailed { bg: true, .. } => "GF",
            K::Log(_) => "LG",
        }
    }
    pub fn is_scenario_event(&self) -> bool {
        !matches!(
            self,
            K::RunStarted
                | K::ParsingFinished { .. }
                | K::RunFinished
                | K::ParseError(_)
                | K::FeatureStarted
                | K::FeatureFinished
                | K::RuleStarted
                | K::RuleFinished
        )
    }
}

#[derive(Clone, Debug, PartialEq, Eq, Serialize, Deserialize)]
pub struct StepRef {
    pub text: String,
    pub line: usize,
    pub kw: String,
    /// Identity of the `Source<Step>` pointer (per-run ordinal, not the address).
    pub ptr: usize,
}

#[derive(Clone, Debug, PartialEq, Eq, Serialize, Deserialize)]
pub struct Ev {
    /// Virtual stamp from `Event::at` (unique per event created with `Event::new`).
    pub at: u64,
    pub k: K,
    pub feature: Option<String>,
    /// Feature path as the reporters print it (`trim_path`ed), if any.
    #[serde(default)]
    pub fpath: Option<String>,
    pub fptr: usize,
    pub rule: Option<String>,
    pub rptr: usize,
    /// The harness's identity of the scenario (`sid.` tag, else its name).
    pub scenario: Option<String>,
    /// The name the scenario shows (what reporters print); equals `scenario` unless names are shared.
    #[serde(default)]
    pub sc_name: Option<String>,
    pub sptr: usize,
    pub sc_line: usize,
    pub retries: Option<(usize, usize)>,
    pub step: Option<StepRef>,
}

impl Ev {
    /// Key identifying the attempt this event belongs to.
    pub fn attempt_key(&self) -> Option<(usize, usize, usize, Option<(usize, usize)>)> {
        self.k.is_scenario_event().then(|| (self.fptr, self.rptr, self.sptr, self.retries))
    }
    pub fn scenario_key(&self) -> Option<(usize, usize, usize)> {
        self.k.is_scenario_event().then(|| (self.fptr, self.rptr, self.sptr))
    }
    pub fn short(&self) -> String {
        let mut s = format!("{}@{}", self.k.tag(), self.at);
        if let Some(f) = &self.feature {
            s.push_str(&format!(" {f}"));
        }
        if let Some(r) = &self.rule {
            s.push_str(&format!("/{r}"));
        }
        if let Some(sc) = &self.scenario {
            s.push_str(&format!("/{sc}"));
        }
        if let Some((c, l)) = self.retries {
            s.push_str(&format!("#{c}+{l}"));
        }
        if let Some(st) = &self.step {
            s.push_str(&format!(" [{}]", st.text));
        }
        match &self.k {
            K::HookFailed(_, p, _) | K::ParseError(p) | K::Log(p) => s.push_str(&format!(" <{p}>")),
            K::StepFailed { payload, err, .. } => s.push_str(&format!(" <{err:?} {payload}>")),
            K::ParsingFinished { features, rules, scenarios, steps, parser_errors } => {
                s.push_str(&format!(" f{features} r{rules} s{scenarios} t{steps} e{parser_errors}"));
            }
            _ => {}
        }
        s
    }
}

pub fn payload_text(info: &Info) -> String {
    if let Some(s) = info.downcast_ref::<String>() {
        s.clone()
    } else if let Some(s) = info.downcast_ref::<&'static str>() {
        (*s).to_owned()
    } else if let Some(c) = info.downcast_ref::<CustomPayload>() {
        format!("custom {}", c.0)
    } else {
        "<unknown payload>".to_owned()
    }
}

pub fn step_error_text(err: &StepError) -> String {
    match err {
        StepError::NotFound => "NotFound".into(),
        StepError::AmbiguousMatch(e) => format!("Ambiguous({})", e.possible_matches.len()),
        StepError::Panic(info) => format!("Panic({})", payload_text(info)),
    }
}

/// Extracts the first `tok<digits>x` token of `s`, if any.
pub fn token_of(s: &str) -> Option<String> {
    let mut rest = s;
    while let Some(i) = rest.find("tok") {
        let tail = &rest[i + 3..];
        let digits: String = tail.chars().take_while(char::is_ascii_digit).collect();
        if !digits.is_empty() && tail[digits.len()..].starts_with('x') {
            return Some(format!("tok{digits}x"));
        }
        rest = &rest[i + 3..];
    }
    None
}

/// What tells two entities at the same address apart (when `Source`s are not kept alive).
pub trait Disc {
    fn disc(&self) -> String;
}
impl Disc for gherkin::Feature {
    fn disc(&self) -> String {
        format!("F|{}|{:?}|{}", self.name, self.path, self.position.line)
    }
}
impl Disc for gherkin::Rule {
    fn disc(&self) -> String {
        format!("R|{}|{}", self.name, self.position.line)
    }
}
impl Disc for gherkin::Scenario {
    fn disc(&self) -> String {
        format!("S|{}|{}|{:?}", self.name, self.position.line, self.tags)
    }
}
impl Disc for gherkin::Step {
    fn disc(&self) -> String {
        format!("T|{}|{}|{}", self.keyword, self.value, self.position.line)
    }
}

/// Assigns small per-run ordinals to `Source` pointers. By default it keeps a clone of every `Source`
/// alive, so an address is never reused for another entity within a run. In the non-retaining mode
/// (`release()`; for plans whose entities all differ in name / position) nothing is kept alive - addresses
/// of finished features ARE reused by later ones, as in a real run - and an entity is identified by its
/// address together with what it is.
#[derive(Default)]
pub struct PtrMap {
    map: std::collections::HashMap<(usize, String), usize>,
    keep: Vec<Box<dyn std::any::Any>>,
    release: bool,
    pub reused_addresses: usize,
    seen_addr: std::collections::HashSet<usize>,
}

impl PtrMap {
    pub fn release(&mut self) {
        self.release = true;
    }

    pub fn id<T: Disc + 'static>(&mut self, src: &event::Source<T>) -> usize {
        let p = std::ptr::from_ref::<T>(&**src) as usize;
        let n = self.map.len() + 1;
        let key = (p, if self.release { src.disc() } else { String::new() });
        match self.map.entry(key) {
            std::collections::hash_map::Entry::Occupied(o) => *o.get(),
            std::collections::hash_map::Entry::Vacant(v) => {
                if self.release {
                    if !self.seen_addr.insert(p) {
                        self.reused_addresses += 1;
                    }
                } else {
                    self.keep.push(Box::new(src.clone()));
                }
                *v.insert(n)
            }
        }
    }
}

pub struct Recorder {
    pub core: std::rc::Rc<SimCore>,
    pub ptrs: PtrMap,
}

impl Recorder {
    pub fn new(core: &std::rc::Rc<SimCore>) -> Self {
        Self { core: std::rc::Rc::clone(core), ptrs: PtrMap::default() }
    }

    pub fn record(&mut self, item: &parser::Result<Event<Cucumber<SimWorld>>>) -> Ev {
        let blank = |at: u64, k: K| Ev {
            at,
            k,
            feature: None,
            fpath: None,
            fptr: 0,
            rule: None,
            rptr: 0,
            scenario: None,
            sc_name: None,
            sptr: 0,
            sc_line: 0,
            retries: None,
            step: None,
        };
        match item {
            Err(e) => blank(0, K::ParseError(e.to_string())),
            Ok(ev) => {
                let at = self.core.system_to_ns(ev.at);
                match &ev.value {
                    Cucumber::Started => blank(at, K::RunStarted),
                    Cucumber::Finished => blank(at, K::RunFinished),
                    Cucumber::ParsingFinished { features, rules, scenarios, steps, parser_errors } => blank(
                        at,
                        K::ParsingFinished {
                            features: *features,
                            rules: *rules,
                            scenarios: *scenarios,
                            steps: *steps,
                            parser_errors: *parser_errors,
                        },
                    ),
                    Cucumber::Feature(f, fev) => {
                        let mut e = blank(at, K::FeatureStarted);
                        e.feature = Some(f.name.clone());
                        e.fpath = f.path.as_ref().and_then(|p| p.to_str()).map(|p| p.trim_start_matches('/').to_owned());
                        e.fptr = self.ptrs.id(f);
                        match fev {
                            Feature::Started => {}
                            Feature::Finished => e.k = K::FeatureFinished,
                            Feature::Rule(r, rev) => {
                                e.rule = Some(r.name.clone());
                                e.rptr = self.ptrs.id(r);
                                match rev {
                                    Rule::Started => e.k = K::RuleStarted,
                                    Rule::Finished => e.k = K::RuleFinished,
                                    Rule::Scenario(s, sev) => self.scenario(&mut e, s, sev),
                                }
                            }
                            Feature::Scenario(s, sev) => self.scenario(&mut e, s, sev),
                        }
                        e
                    }
                }
            }
        }
    }

    fn scenario(
        &mut self,
        e: &mut Ev,
        s: &event::Source<cucumber::gherkin::Scenario>,
        sev: &event::RetryableScenario<SimWorld>,
    ) {
        e.scenario = Some(crate::plan::scenario_identity(s));
        e.sc_name = Some(s.name.clone());
        e.sptr = self.ptrs.id(s);
        e.sc_line = s.position.line;
        e.retries = sev.retries.map(|r| (r.current, r.left));
        let hk = |t: &HookType| match t {
            HookType::Before => Hk::Before,
            HookType::After => Hk::After,
        };
        match &sev.event {
            Scenario::Started => e.k = K::ScStarted,
            Scenario::Finished => e.k = K::ScFinished,
            Scenario::Log(m) => e.k = K::Log(m.clone()),
            Scenario::Hook(t, h) => {
                e.k = match h {
                    Hook::Started => K::HookStarted(hk(t)),
                    Hook::Passed => K::HookPassed(hk(t)),
                    Hook::Failed(w, info) => {
                        K::HookFailed(hk(t), payload_text(info), w.as_ref().map(|w| w.id))
                    }
                };
            }
            Scenario::Background(st, sv) | Scenario::Step(st, sv) => {
                let bg = matches!(&sev.event, Scenario::Background(..));
                e.step = Some(StepRef {
                    text: st.value.clone(),
                    line: st.position.line,
                    kw: st.keyword.clone(),
                    ptr: self.ptrs.id(st),
                });
                e.k = match sv {
                    Step::Started => K::StepStarted { bg },
                    Step::Passed(..) => K::StepPassed { bg },
                    Step::Skipped => K::StepSkipped { bg },
                    Step::Failed(caps, loc, w, err) => K::StepFailed {
                        bg,
                        err: match err {
                            StepError::NotFound => ErrK::NotFound,
                            StepError::AmbiguousMatch(a) => ErrK::Ambiguous(a.possible_matches.len()),
                            StepError::Panic(_) => ErrK::Panic,
                        },
                        payload: match err {
                            StepError::Panic(i) => payload_text(i),
                            other => other.to_string(),
                        },
                        world: w.as_ref().map(|w| w.id),
                        has_captures: caps.is_some(),
                        has_loc: loc.is_some(),
                    },
                };
            }
        }
    }
}
