use std::rc::Rc;

use cucumber_sim::{genplan, runa};

fn main() {
    let args: Vec<String> = std::env::args().collect();
    let seed: u64 = args.get(1).and_then(|s| s.parse().ok()).unwrap_or(1);
    let prof = genplan::Profile::base(false);
    let plan = Rc::new(genplan::gen_plan(seed, &prof));
    println!("{}", serde_json::to_string(&*plan).unwrap());
    for f in &plan.features {
        println!("{}", f.gherkin());
    }
    let h = runa::run_world_a(&plan).unwrap();
    for e in &h.events {
        println!("{}", e.short());
    }
    println!("end={:?} ended={} polls={} fired={} cbs={}", h.end, h.stream_ended, h.stats.root_polls, h.stats.timers_fired, h.cb.len());
}
