//! Single-threaded simulation worker.
//!
//!   sim-worker run --prop C07 --tier quick --seed S --start I --count N --replay-dir DIR
//!   sim-worker replay FILE
//!   sim-worker digests --prop C07 --tier quick --seed S --start I --count N
//!   sim-worker show --prop C07 --tier quick --seed S --index I
//!
//! stdout carries JSON lines only. Exit code: 0 ok, 1 violation(s), 2 harness error.

use std::{collections::BTreeMap, fs, path::PathBuf, process::ExitCode, rc::Rc};

use cucumber_sim::{
    check::{self, Executed, ReplayFile, Stats},
    core::splitmix,
    genplan,
    plan::Plan,
};

fn arg(args: &[String], name: &str) -> Option<String> {
    args.iter().position(|a| a == name).and_then(|i| args.get(i + 1).cloned())
}

static FORCE_T: std::sync::atomic::AtomicBool = std::sync::atomic::AtomicBool::new(false);

/// Watchdog: a root poll that never returns cannot be pre-empted by the simulator, so a helper
/// thread watches the wall clock of the run in progress. A run exceeding `HANG_SECS` is a liveness
/// violation (C04: "the run always terminates") and is reported with its plan as the replay file;
/// for any other property it is a harness-level abort (exit 2), never a silent hang.
const HANG_SECS: u64 = 180;
static REPLAYING: std::sync::Mutex<Option<String>> = std::sync::Mutex::new(None);
static CURRENT: std::sync::Mutex<Option<(std::time::Instant, String, u64, u64)>> = std::sync::Mutex::new(None);

fn start_watchdog(prop: String, seed: u64, replay_dir: PathBuf) {
    std::thread::spawn(move || {
        loop {
            std::thread::sleep(std::time::Duration::from_secs(2));
            let cur = CURRENT.lock().ok().and_then(|g| g.clone());
            let Some((t0, plan_json, idx, run_seed)) = cur else { continue };
            if t0.elapsed().as_secs() < HANG_SECS {
                continue;
            }
            if let Some(path) = REPLAYING.lock().ok().and_then(|g| g.clone()) {
                // replaying a file: a hang reproduces a recorded hang
                if prop == "C04" {
                    println!("VIOLATION property=C04 replay={path}");
                    eprintln!("a single poll of the event stream did not return within {HANG_SECS} s");
                    std::process::exit(1);
                }
                eprintln!("HARNESS-ERROR: replay did not finish within {HANG_SECS} s");
                std::process::exit(2);
            }
            if prop == "C04" {
                if let Ok(plan) = serde_json::from_str::<Plan>(&plan_json) {
                    let viol = cucumber_sim::model::Violation::new("C04", "poll-never-returns", format!("a single poll of the event stream did not return within {HANG_SECS} s of wall-clock time (busy loop without a yield)"));
                    let rf = ReplayFile {
                        property: "C04".into(),
                        world: "A".into(),
                        build: check::build_name().to_owned(),
                        seed,
                        run_index: idx,
                        run_seed,
                        class: viol.class(),
                        violation: viol.clone(),
                        minimised_plan: plan.clone(),
                        original_plan: plan,
                        shrink_executions: 0,
                        digest: 0,
                        schedule: vec![],
                        fault_trace: vec!["(hang: not minimised, the run never ends)".into()],
                        events: vec![],
                        gherkin: vec![],
                        after_earlier_run: false,
                    };
                    let _ = fs::create_dir_all(&replay_dir);
                    let path = replay_dir.join(format!("C04-{}-{}-{}-hang.json", check::build_name(), seed, idx));
                    let _ = fs::write(&path, serde_json::to_string_pretty(&rf).unwrap_or_default());
                    println!("{}", serde_json::json!({"type":"violation","property":"C04","class":viol.class(),"code":viol.code,"attrs":viol.attrs,"msg":viol.msg,"replay":path,"run_index":idx,"hang":true}));
                    println!("{}", serde_json::json!({"type":"classes","classes":{viol.class():1}}));
                    std::process::exit(1);
                }
            }
            eprintln!("HARNESS-ERROR: run #{idx} did not finish within {HANG_SECS} s of wall-clock time (hang inside the code under test?)");
            std::process::exit(2);
        }
    });
}

fn mark_run(plan: &Plan, idx: u64, run_seed: u64) {
    if let Ok(mut g) = CURRENT.lock() {
        *g = Some((std::time::Instant::now(), serde_json::to_string(plan).unwrap_or_default(), idx, run_seed));
    }
}

fn unmark_run() {
    if let Ok(mut g) = CURRENT.lock() {
        *g = None;
    }
}

/// World T runs once per process: execute the plan in a child process of this very binary.
fn exec_t_child(prop: &str, plan: &Rc<Plan>) -> Result<Executed, String> {
    use std::io::Write as _;
    let exe = std::env::current_exe().map_err(|e| e.to_string())?;
    let mut child = std::process::Command::new(exe)
        .env("SIM_WORKER_ARGS", serde_json::json!(["exec-plan", "--prop", prop]).to_string())
        .stdin(std::process::Stdio::piped())
        .stdout(std::process::Stdio::piped())
        .stderr(std::process::Stdio::piped())
        .spawn()
        .map_err(|e| e.to_string())?;
    child.stdin.take().ok_or("no stdin")?.write_all(serde_json::to_string(&**plan).map_err(|e| e.to_string())?.as_bytes()).map_err(|e| e.to_string())?;
    let out = child.wait_with_output().map_err(|e| e.to_string())?;
    if !out.status.success() {
        return Err(format!("exec-plan child failed: {}", String::from_utf8_lossy(&out.stderr)));
    }
    #[derive(serde::Deserialize)]
    struct ChildOut {
        violations: Vec<cucumber_sim::model::Violation>,
        history: cucumber_sim::runa::History,
    }
    let line = String::from_utf8_lossy(&out.stdout);
    let line = line.lines().rev().find(|l| l.starts_with("{\"history\"")).ok_or("exec-plan child printed no result")?;
    let co: ChildOut = serde_json::from_str(line).map_err(|e| format!("child output: {e}"))?;
    Ok(Executed { violations: co.violations, history: Some(co.history), chistory: None, bhistory: None, rhistory: None })
}

fn exec_plan_child(args: &[String]) -> Result<u8, String> {
    use std::io::Read as _;
    let prop = arg(args, "--prop").ok_or("--prop missing")?;
    let mut s = String::new();
    std::io::stdin().read_to_string(&mut s).map_err(|e| e.to_string())?;
    let plan: Plan = serde_json::from_str(&s).map_err(|e| e.to_string())?;
    let e = check::execute_t_inproc(&prop, &Rc::new(plan))?;
    println!("{}", serde_json::json!({"violations": e.violations, "history": e.history}));
    Ok(0)
}

fn exec(prop: &str, plan: &Rc<Plan>) -> Result<Executed, String> {
    if FORCE_T.load(std::sync::atomic::Ordering::SeqCst) && check::world_of(prop) == 'A' {
        return exec_t_child(prop, plan);
    }
    match check::world_of(prop) {
        'T' => exec_t_child(prop, plan),
        'A' => check::execute_a(prop, plan),
        'C' => check::execute_c(prop, plan),
        'B' => check::execute_b(prop, plan),
        'R' => check::execute_r(prop, plan),
        w => Err(format!("harness: world {w} not available in this worker for {prop}")),
    }
}

fn main() -> ExitCode {
    // The driver passes the worker's arguments in SIM_WORKER_ARGS (a JSON array) and leaves argv empty:
    // code under test that falls back to parsing the *process* arguments (`cli::Opts::parsed()`, when
    // CLI options given through `with_cli` get lost) then sees an ordinary test binary's command line
    // instead of aborting the process on the worker's own flags.
    let args: Vec<String> = match std::env::var("SIM_WORKER_ARGS") {
        Ok(j) => {
            let mut v: Vec<String> = serde_json::from_str(&j).unwrap_or_default();
            v.insert(0, std::env::args().next().unwrap_or_default());
            v
        }
        Err(_) => std::env::args().collect(),
    };
    let mode = args.get(1).cloned().unwrap_or_default();
    let res = std::panic::catch_unwind(|| match mode.as_str() {
        "run" => run(&args),
        "replay" => replay(&args),
        "digests" => digests(&args),
        "show" => show(&args),
        "exec-plan" => exec_plan_child(&args),
        _ => Err(format!("unknown mode {mode:?}")),
    });
    match res {
        Ok(Ok(code)) => ExitCode::from(code),
        Ok(Err(e)) => {
            eprintln!("HARNESS-ERROR: {e}");
            ExitCode::from(2)
        }
        Err(_) => {
            eprintln!("HARNESS-ERROR: worker panicked");
            ExitCode::from(2)
        }
    }
}

struct Common {
    prop: String,
    tier: String,
    seed: u64,
    start: u64,
    count: u64,
}

fn common(args: &[String]) -> Result<Common, String> {
    if args.iter().any(|a| a == "--collector") {
        FORCE_T.store(true, std::sync::atomic::Ordering::SeqCst);
    }
    Ok(Common {
        prop: arg(args, "--prop").ok_or("--prop missing")?,
        tier: arg(args, "--tier").unwrap_or_else(|| "quick".into()),
        seed: arg(args, "--seed").and_then(|s| s.parse().ok()).unwrap_or(20_261_003),
        start: arg(args, "--start").and_then(|s| s.parse().ok()).unwrap_or(0),
        count: arg(args, "--count").and_then(|s| s.parse().ok()).unwrap_or(1),
    })
}

fn plan_for(c: &Common, index: u64) -> (u64, Plan) {
    let mut prof = check::profile_for(&c.prop, &c.tier);
    if FORCE_T.load(std::sync::atomic::Ordering::SeqCst) {
        // runs with the collector installed: user code logs (bursts, floods, helpers that outlive callbacks, ...)
        prof.tracing = true;
    }
    let run_seed = splitmix(c.seed ^ prop_salt(&c.prop), index);
    let mut plan = genplan::gen_plan(run_seed, &prof);
    if check::world_of(&c.prop) == 'C' {
        check::decorate_for_world_c(&c.prop, &mut plan);
    }
    if check::world_of(&c.prop) == 'B' {
        check::decorate_for_world_b(&c.prop, &mut plan);
    }
    if check::world_of(&c.prop) == 'R' {
        check::decorate_for_world_r(&mut plan);
    }
    if FORCE_T.load(std::sync::atomic::Ordering::SeqCst) {
        plan.tracing = true;
    }
    // Only ever execute what a replay file can hold: the plan after a JSON round trip.
    let plan: Plan = serde_json::from_str(&serde_json::to_string(&plan).expect("plan serialises")).expect("plan round-trips");
    (run_seed, plan)
}

fn prop_salt(prop: &str) -> u64 {
    let mut h = cucumber_sim::core::FNV_INIT;
    cucumber_sim::core::fnv(&mut h, prop.as_bytes());
    h
}

fn run(args: &[String]) -> Result<u8, String> {
    let c = common(args)?;
    let replay_dir = PathBuf::from(arg(args, "--replay-dir").unwrap_or_else(|| "/verif/replays".into()));
    let max_replays: usize = arg(args, "--max-replays").and_then(|s| s.parse().ok()).unwrap_or(3);
    let mut stats = Stats::default();
    let mut classes: BTreeMap<String, u64> = BTreeMap::new();
    let mut written = 0usize;
    start_watchdog(c.prop.clone(), c.seed, replay_dir.clone());
    for i in c.start..c.start + c.count {
        let (run_seed, plan) = plan_for(&c, i);
        let plan = Rc::new(plan);
        mark_run(&plan, i, run_seed);
        let e = exec(&c.prop, &plan)?;
        unmark_run();
        if let Some(h) = &e.history {
            stats.absorb_history(&plan, h);
        }
        if let Some(ch) = &e.chistory {
            stats.absorb_c(&plan, ch);
        }
        if let Some(bh) = &e.bhistory {
            stats.absorb_b(&plan, bh);
        }
        if let Some(rh) = &e.rhistory {
            stats.absorb_r(&plan, rh);
        }
        for v in &e.violations {
            stats.violations += 1;
            let class = v.class();
            let n = classes.entry(class.clone()).or_insert(0);
            *n += 1;
            if *n == 1 && written < max_replays {
                written += 1;
                let rf = check::make_replay(&c.prop, c.seed, i, run_seed, &plan, v, &exec, 400)?;
                stats.shrink_execs += rf.shrink_executions as u64;
                fs::create_dir_all(&replay_dir).map_err(|e| e.to_string())?;
                let mut ch = cucumber_sim::core::FNV_INIT;
                cucumber_sim::core::fnv(&mut ch, class.as_bytes());
                let path = replay_dir.join(format!("{}-{}-{}-{}-{:08x}.json", c.prop, check::build_name(), c.seed, i, ch as u32));
                fs::write(&path, serde_json::to_string_pretty(&rf).map_err(|e| e.to_string())?).map_err(|e| e.to_string())?;
                println!(
                    "{}",
                    serde_json::json!({"type":"violation","property":c.prop,"class":class,"code":v.code,"attrs":v.attrs,"msg":rf.violation.msg,"replay":path,"run_index":i})
                );
            }
        }
    }
    println!("{}", serde_json::json!({"type":"classes","classes":classes}));
    println!("{}", serde_json::json!({"type":"summary","stats":stats}));
    Ok(u8::from(!classes.is_empty()))
}

fn replay(args: &[String]) -> Result<u8, String> {
    let path = args.get(2).ok_or("replay: file missing")?;
    let rf: ReplayFile = serde_json::from_str(&fs::read_to_string(path).map_err(|e| e.to_string())?).map_err(|e| e.to_string())?;
    if rf.world == "T" {
        FORCE_T.store(true, std::sync::atomic::Ordering::SeqCst);
    }
    if rf.build != check::build_name() {
        return Err(format!("replay file is for build {:?}, this worker is {:?}", rf.build, check::build_name()));
    }
    let plan = Rc::new(rf.minimised_plan.clone());
    if let Ok(mut g) = REPLAYING.lock() {
        *g = Some(path.clone());
    }
    start_watchdog(rf.property.clone(), rf.seed, PathBuf::from("/verif/replays"));
    let forced_warmup = args.iter().any(|a| a == "--after-earlier-run");
    if rf.after_earlier_run || forced_warmup {
        // the violation needs an earlier run in this process: a fixed warm-up run comes first
        let w = Rc::new(check::warmup_plan());
        mark_run(&w, 0, 0);
        drop(exec(&rf.property, &w)?);
        unmark_run();
    }
    mark_run(&plan, rf.run_index, rf.run_seed);
    let e = exec(&rf.property, &plan)?;
    unmark_run();
    let same = e.violations.iter().find(|v| v.class() == rf.class);
    let digest = e.digest();
    if same.is_some() && forced_warmup && !rf.after_earlier_run {
        let mut upd = rf.clone();
        upd.after_earlier_run = true;
        upd.digest = digest;
        fs::write(path, serde_json::to_string_pretty(&upd).map_err(|e| e.to_string())?).map_err(|e| e.to_string())?;
    }
    println!(
        "{}",
        serde_json::json!({"type":"replay","property":rf.property,"class":rf.class,"reproduced":same.is_some(),"digest_matches":digest==rf.digest,
            "violations": e.violations.iter().map(|v| v.class()).collect::<Vec<_>>(), "msg": same.map(|v| v.msg.clone())})
    );
    if let Some(v) = same {
        if digest == rf.digest {
            println!("VIOLATION property={} replay={path}", rf.property);
            eprintln!("{}", v.msg);
            return Ok(1);
        }
        // Still a violation: report it, but say that the replay was not bit-identical.
        println!("VIOLATION property={} replay={path}", rf.property);
        eprintln!("WARNING: replay reproduced the violation but with a different schedule digest\n{}", v.msg);
        return Ok(1);
    }
    Ok(0)
}

fn digests(args: &[String]) -> Result<u8, String> {
    let c = common(args)?;
    for i in c.start..c.start + c.count {
        let (_, plan) = plan_for(&c, i);
        let plan = Rc::new(plan);
        let e = exec(&c.prop, &plan)?;
        println!("{i} {:016x} {}", e.digest(), e.violations.len());
    }
    Ok(0)
}

fn show(args: &[String]) -> Result<u8, String> {
    let c = common(args)?;
    let index: u64 = arg(args, "--index").and_then(|s| s.parse().ok()).unwrap_or(0);
    let (_, mut plan) = plan_for(&c, index);
    if let Some(pf) = arg(args, "--replay-file") {
        let rf: ReplayFile = serde_json::from_str(&fs::read_to_string(pf).map_err(|e| e.to_string())?).map_err(|e| e.to_string())?;
        plan = rf.minimised_plan;
    }
    println!("{}", serde_json::to_string(&plan).map_err(|e| e.to_string())?);
    for f in &plan.features {
        println!("{}", f.gherkin());
    }
    let plan = Rc::new(plan);
    let e = exec(&c.prop, &plan)?;
    if let Some(h) = &e.history {
        for ev in &h.events {
            println!("{}", ev.short());
        }
        for cb in &h.cb {
            println!("CB {:?} {} #{} w={:?} [{}..{:?}] {:?} {:?}", cb.kind, cb.site, cb.ordinal, cb.world, cb.enter, cb.exit, cb.token, cb.finished_arg);
        }
        println!("end={:?} stats={:?}", h.end, h.stats);
    }
    if let Some(r) = &e.rhistory {
        for ev in &r.input {
            println!("IN  {}", ev.short());
        }
        println!("--- {} report ---\n{}", r.reporter, r.output);
        if let Some(t) = &r.term_output {
            println!("--- terminal mode, raw ---\n{}", t.replace('\x1b', "\u{241b}"));
            match cucumber_sim::reporters::emulate_terminal(t) {
                Ok(screen) => println!("--- terminal mode, screen ---\n{}", screen.join("\n")),
                Err(e) => println!("--- terminal mode: {e}"),
            }
        }
    }
    if let Some(b) = &e.bhistory {
        for ev in &b.raw {
            println!("{}", ev.short());
        }
        println!("stack {} end {:?} panic {:?} probe {:?}", b.stack, b.end, b.panic_msg, b.probe);
        for (k, v) in &b.outputs {
            println!("--- sink {k} ---\n{v}");
        }
    }
    if let Some(c) = &e.chistory {
        println!("stack {} shape {:?}", c.stack, c.shape);
        for ev in &c.input {
            println!("IN  {}", ev.short());
        }
        for (name, out) in &c.outputs {
            for (call, ev) in out {
                println!("OUT[{name}] call={call} {}", ev.short());
            }
        }
        println!("writes {:?} numbers {:?} end {:?}", c.writes, c.numbers, c.end);
    }
    for v in &e.violations {
        println!("VIOL {} :: {}", v.class(), v.msg);
    }
    Ok(0)
}
