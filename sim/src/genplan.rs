//! seed -> `Plan` (swarm-style: every run enables a random subset of features and fault
//! kinds, with random sizes). A `Profile` biases the swarm towards one property's dimensions.

use std::collections::BTreeMap;

use crate::{
    core::{Rng, SchedKnobs},
    plan::{
        Behaviour, BuilderLimit, Def, FeatureSpec, Kw, Outcome, ParserItem, ParserItemKind, Plan, RuleSpec,
        RunnerCfg, ScenarioSpec, StepSpec, WriterCfg, expanded_names, SITE_WORLD, site_after,
        site_before, site_step,
    },
};

#[derive(Clone, Debug)]
pub struct Profile {
    pub thorough: bool,
    /// Per-mille chances that a run enables the dimension at all.
    pub hooks_pm: u64,
    pub retries_pm: u64,
    pub retry_delay_pm: u64,
    pub serial_pm: u64,
    pub lazy_parser_pm: u64,
    pub parser_err_pm: u64,
    pub outlines_pm: u64,
    pub fail_fast_pm: u64,
    pub faults_pm: u64,
    pub undefined_pm: u64,
    pub sched_noise_pm: u64,
    pub wide_pm: u64,
    pub small_limit_pm: u64,
    pub tracing: bool,
    /// tracing plans in which some steps drive a nested run of the same crate (per mille)
    pub nested_pm: u64,
    /// Force "no failing outcome anywhere" (C08 differential).
    pub no_failures: bool,
    /// Names / doc strings with quotes, markup, backslashes and non-ASCII characters (reporters).
    pub spicy: bool,
    /// All features of the plan share one name, and all rules of a feature share one (scenario
    /// names stay unique): whatever keys by name instead of by `Source` identity merges them.
    pub dup_names_pm: u64,
    /// Features as a custom parser / gherkin's typed builders produce them: every position 0:0
    /// (a scenario may then also hold the same step twice: `repeat_steps`).
    pub positionless_pm: u64,
    pub repeat_steps: bool,
    pub many_features_pm: u64,
    pub twin_features_pm: u64,
    /// Runner-world plans executed through the `Cucumber` pipeline (world P); 0 for the other worlds.
    pub pipeline_pm: u64,
}

impl Profile {
    pub fn base(thorough: bool) -> Self {
        Self {
            thorough,
            hooks_pm: 600,
            retries_pm: 500,
            retry_delay_pm: 400,
            serial_pm: 350,
            lazy_parser_pm: 400,
            parser_err_pm: 150,
            outlines_pm: 200,
            fail_fast_pm: 200,
            faults_pm: 700,
            undefined_pm: 300,
            sched_noise_pm: 600,
            wide_pm: if thorough { 15 } else { 0 },
            small_limit_pm: 650,
            tracing: false,
            nested_pm: 0,
            no_failures: false,
            spicy: false,
            dup_names_pm: 60,
            positionless_pm: 60,
            repeat_steps: true,
            many_features_pm: 15,
            twin_features_pm: 40,
            pipeline_pm: 0,
        }
    }

    pub fn for_prop(prop: &str, thorough: bool) -> Self {
        let mut p = Self::base(thorough);
        match prop {
            "C01" => {
                p.hooks_pm = 750;
                p.retries_pm = 750;
                p.faults_pm = 900;
                p.parser_err_pm = 200;
                p.undefined_pm = 500;
            }
            "C03" => {
                p.parser_err_pm = 350;
                p.lazy_parser_pm = 500;
                p.fail_fast_pm = 300;
            }
            "C04" => {
                p.lazy_parser_pm = 850;
                // (termination is owed under fail-fast as well: what arrives or is re-queued after the
                // trip must not keep the loop alive)
                p.fail_fast_pm = 250;
                p.retry_delay_pm = 600;
            }
            "C05" => {
                p.retries_pm = 950;
                p.retry_delay_pm = 700;
                p.faults_pm = 950;
                p.fail_fast_pm = 100;
            }
            "C06" => {
                p.small_limit_pm = 800;
                p.wide_pm = if thorough { 60 } else { 10 };
                p.fail_fast_pm = 100;
            }
            "C07" => {
                p.serial_pm = 1000;
                p.retries_pm = 800;
                p.retry_delay_pm = 800;
                p.lazy_parser_pm = 600;
                p.faults_pm = 900;
                p.fail_fast_pm = 50;
            }
            "C08" => {
                // (a burst of more than 64 completions in one pass of the executor needs the wide shape)
                p.wide_pm = if thorough { 80 } else { 60 };
                p.fail_fast_pm = 1000;
                p.faults_pm = 900;
                p.parser_err_pm = 250;
            }
            "C09" | "C10" => {
                p.hooks_pm = 850;
                p.faults_pm = 1000;
            }
            "C11" | "C12" | "C13" => {
                p.many_features_pm = 80;
                p.twin_features_pm = 80;
                p.dup_names_pm = 120;
                p.positionless_pm = 120;
                p.repeat_steps = true;
            }
            "C14" => {
                p.many_features_pm = 50;
                p.twin_features_pm = 80;
                p.dup_names_pm = 120;
                p.positionless_pm = 120;
                p.repeat_steps = true;
                p.spicy = true;
                p.hooks_pm = 700;
                p.retries_pm = 600;
                p.parser_err_pm = 300;
                p.undefined_pm = 500;
                p.outlines_pm = 300;
            }
            "C20" => {
                p.tracing = true;
                p.nested_pm = 150;
                p.hooks_pm = 700;
                p.lazy_parser_pm = 200;
            }
            _ => {}
        }
        if matches!(prop, "C02" | "C03" | "C04" | "C05" | "C06" | "C07" | "C08" | "C09" | "C10") {
            p.pipeline_pm = 250;
        }
        p
    }
}

fn ident(prefix: &str, i: usize) -> String {
    format!("{prefix}{i}")
}

struct Ctx<'a> {
    r: &'a mut Rng,
    p: &'a Profile,
    undefined: bool,
    doc_strings: bool,
    spicy_names: bool,
    /// position-less plans: a scenario may hold the same step (keyword, text, position 0:0) twice
    repeat_steps: bool,
    dup_scenarios: bool,
    /// some scenarios of this plan have dozens of steps (a backlog of well over 64 events per attempt)
    long_scenarios: bool,
}

const SPICE: &[&str] = &["", "", "", " \"q\"", " <b>&amp;", " a\\b", " émoji ✓", " it's", " 100%"];

fn gen_steps(c: &mut Ctx<'_>, id: &str, n: usize) -> Vec<StepSpec> {
    (0..n)
        .map(|i| {
            let kw = *c.r.pick(&[Kw::Given, Kw::When, Kw::Then]);
            let def = if c.undefined && c.r.chance(1, 8) {
                if c.r.chance(1, 2) { Def::None } else { Def::Two }
            } else {
                Def::One
            };
            let doc = (c.doc_strings && c.r.chance(1, 6)).then(|| format!("doc of {id}t{i}\nline < 2 > & \"x\""));
            StepSpec { kw, text: format!("{id}t{i} runs"), def, doc }
        })
        .collect()
}

fn gen_scenario(c: &mut Ctx<'_>, id: &str, max_steps: usize, serial: bool, retry_tag: Option<String>, outline: bool) -> ScenarioSpec {
    let n = if c.long_scenarios && c.r.chance(1, 4) { c.r.usize(33, 90) } else { c.r.usize(0, max_steps) };
    let mut steps = gen_steps(c, id, n);
    if c.repeat_steps && n >= 2 && c.r.chance(1, 3) {
        steps[0] = steps[n - 1].clone();
        if c.r.chance(1, 2) {
            // the same text under another keyword, defined differently there (definitions live per keyword)
            let other: Vec<Kw> = [Kw::Given, Kw::When, Kw::Then].into_iter().filter(|k| *k != steps[0].kw).collect();
            steps[0].kw = *c.r.pick(&other);
            steps[0].def = *c.r.pick(&[Def::None, Def::One, Def::Two]);
        }
    }
    let mut tags = Vec::new();
    if serial {
        tags.push("serial".to_owned());
    }
    if let Some(t) = retry_tag {
        tags.push(t);
    }
    if c.r.chance(1, 10) {
        tags.push("allow.skipped".to_owned());
    }
    let examples = outline.then(|| {
        let k = c.r.usize(1, 3);
        (0..k).map(|j| format!("e{j}")).collect()
    });
    let spice = if c.spicy_names && !outline { *c.r.pick(SPICE) } else { "" };
    // same-named scenarios (as the rows of an outline without a placeholder in its name are)
    let display = (c.dup_scenarios && !outline).then(|| "Sdup scenario".to_owned());
    // an outline may carry tags on its `Examples:` block, after a block whose table is still missing
    let (examples_tags, examples_empty_first) = if outline && c.r.chance(1, 3) {
        (vec![(*c.r.pick(&["serial", "allow.skipped"])).to_owned()], c.r.chance(1, 2))
    } else {
        (Vec::new(), false)
    };
    ScenarioSpec { name: format!("{id}{spice}"), tags, steps, examples, display, examples_tags, examples_empty_first }
}

fn gen_retry_tag(r: &mut Rng, delay: bool, max_retries: usize) -> String {
    // (now and then a budget of two or three digits - more than the attempts any scenario will need)
    let n = if r.chance(1, 10) { *r.pick(&[10usize, 12, 15, 64, 100, 255, 256, 1000]) } else { r.usize(0, max_retries) };
    match (r.chance(3, 4), delay) {
        (true, true) => format!("retry({n}).after({}ns)", r.log_dur(3_000_000_000)),
        (true, false) => format!("retry({n})"),
        (false, true) => format!("retry.after({}ns)", r.log_dur(3_000_000_000)),
        (false, false) => "retry".to_owned(),
    }
}

pub fn gen_plan(seed: u64, prof: &Profile) -> Plan {
    let mut r = Rng::new(seed);
    let on = |r: &mut Rng, pm: u64| r.chance(pm, 1000);

    let hooks = on(&mut r, prof.hooks_pm);
    let retries_on = on(&mut r, prof.retries_pm);
    let retry_delay = retries_on && on(&mut r, prof.retry_delay_pm);
    let serial_on = on(&mut r, prof.serial_pm);
    let lazy = on(&mut r, prof.lazy_parser_pm);
    let perr = on(&mut r, prof.parser_err_pm);
    let outlines = on(&mut r, prof.outlines_pm);
    let fail_fast = on(&mut r, prof.fail_fast_pm);
    let faults_on = !prof.no_failures && on(&mut r, prof.faults_pm);
    let undefined = !prof.no_failures && on(&mut r, prof.undefined_pm);
    let noise = on(&mut r, prof.sched_noise_pm);
    let wide = on(&mut r, prof.wide_pm);
    let max_retries = if prof.thorough { 5 } else { 3 };

    // a long run of small features (a backlog for anything that buffers per feature)
    let many_features = !wide && r.chance(prof.many_features_pm, 1000);
    let (n_feat, max_sc, max_steps, max_bg) = if wide {
        // (a third of the wide plans are very wide: several waves of more than 64 scenarios at the same stage)
        (r.usize(1, 3), if r.chance(1, 3) { r.usize(150, 320) } else { r.usize(70, 100) }, 1, 0)
    } else if many_features {
        let n = r.usize(18, 45);
        (n, n + r.usize(0, 10), 1, 0)
    } else if prof.thorough {
        (r.usize(1, 8), r.usize(1, 40), r.usize(0, 4), r.usize(0, 2))
    } else {
        (r.usize(1, 4), r.usize(1, 12), r.usize(0, 4), r.usize(0, 2))
    };

    // one run in forty has no feature at all (only parser errors, or nothing)
    let n_feat = if !wide && r.chance(1, 40) { 0 } else { n_feat };

    // ---- features
    let mut features = Vec::new();
    let mut budget = max_sc;
    let dup_names = r.chance(prof.dup_names_pm, 1000);
    // features as a custom parser / typed builders produce them: all positions 0:0
    let positionless = r.chance(prof.positionless_pm, 1000);
    let long_scenarios = !wide && !many_features && r.chance(50, 1000);
    let mut c = Ctx {
        r: &mut r,
        p: prof,
        undefined,
        doc_strings: prof.spicy,
        spicy_names: prof.spicy,
        repeat_steps: positionless && prof.repeat_steps,
        dup_scenarios: dup_names && !positionless,
        long_scenarios,
    };
    let _ = c.p;
    for fi in 0..n_feat {
        let fid = ident("F", fi);
        let remaining_feats = n_feat - fi;
        let share = (budget / remaining_feats).max(if fi == 0 { 1 } else { 0 });
        let n_sc_total = if wide { share } else { c.r.usize(if fi == 0 || many_features { 1 } else { 0 }, share.max(1)).min(budget.max(usize::from(many_features))) };
        budget -= n_sc_total.min(budget);
        let n_rules = if wide || many_features { 0 } else { c.r.usize(0, 2) };
        let mut per: Vec<usize> = vec![0; n_rules + 1];
        for _ in 0..n_sc_total {
            let k = c.r.usize(0, n_rules);
            per[k] += 1;
        }
        let f_serial = serial_on && c.r.chance(1, 12);
        let mut ftags = Vec::new();
        if f_serial {
            ftags.push("serial".to_owned());
        }
        if retries_on && c.r.chance(1, 6) {
            let d = retry_delay && c.r.chance(1, 2);
            ftags.push(gen_retry_tag(c.r, d, max_retries));
        }
        if c.r.chance(1, 14) {
            ftags.push("allow.skipped".to_owned());
        }
        let nbg = c.r.usize(0, max_bg);
        let background = gen_steps(&mut c, &format!("{fid}bg"), nbg);
        let mut mk_scs = |c: &mut Ctx<'_>, prefix: &str, n: usize| -> Vec<ScenarioSpec> {
            (0..n)
                .map(|si| {
                    let serial = serial_on && c.r.chance(1, 4);
                    let rt = if retries_on && c.r.chance(1, 3) {
                        let d = retry_delay && c.r.chance(2, 3);
                        Some(gen_retry_tag(c.r, d, max_retries))
                    } else {
                        None
                    };
                    let outline = outlines && c.r.chance(1, 5);
                    let mut id = format!("{prefix}s{si}");
                    let mut tagged = serial;
                    if serial && c.r.chance(1, 2) {
                        // also recognisable by the custom classifier - or, half of the time, by it alone
                        // (no `@serial` tag: serial only where `which_scenario` is the custom one)
                        id.push_str("_SER");
                        tagged = c.r.chance(1, 2);
                    }
                    gen_scenario(c, &id, max_steps, tagged, rt, outline)
                })
                .collect()
        };
        let mut scenarios = mk_scs(&mut c, &fid, per[0]);
        // the same step text in two scenarios, under different keywords and defined differently there
        if c.repeat_steps && scenarios.len() >= 2 && c.r.chance(1, 2) {
            let (a, b) = if c.r.chance(1, 2) { (0, 1) } else { (1, 0) };
            if scenarios[a].examples.is_none() && scenarios[b].examples.is_none() && !scenarios[a].steps.is_empty() && !scenarios[b].steps.is_empty() {
                let mut st = scenarios[a].steps[scenarios[a].steps.len() - 1].clone();
                let other: Vec<Kw> = [Kw::Given, Kw::When, Kw::Then].into_iter().filter(|k| *k != st.kw).collect();
                st.kw = *c.r.pick(&other);
                let defs: Vec<Def> = [Def::None, Def::One, Def::Two].into_iter().filter(|d| *d != st.def).collect();
                st.def = *c.r.pick(&defs);
                scenarios[b].steps[0] = st;
            }
        }
        let mut rules = Vec::new();
        for ri in 0..n_rules {
            let rid = format!("{fid}r{ri}");
            let r_serial = serial_on && c.r.chance(1, 10);
            let mut rtags = Vec::new();
            if r_serial {
                rtags.push("serial".to_owned());
            }
            if retries_on && c.r.chance(1, 8) {
                let d = retry_delay && c.r.chance(1, 2);
                rtags.push(gen_retry_tag(c.r, d, max_retries));
            }
            if c.r.chance(1, 10) {
                rtags.push("allow.skipped".to_owned());
            }
            let nrbg = c.r.usize(0, max_bg);
            let rbg = gen_steps(&mut c, &format!("{rid}bg"), nrbg);
            let scs = mk_scs(&mut c, &rid, per[ri + 1]);
            let rspice = if prof.spicy { *c.r.pick(SPICE) } else { "" };
            let rname = if dup_names { "Rdup rule".to_owned() } else { format!("{rid} rule{rspice}") };
            rules.push(RuleSpec { name: rname, tags: rtags, background: rbg, scenarios: scs });
        }
        let path = c.r.chance(3, 4).then(|| format!("/sim/features/{fid}.feature"));
        // same-named features: paths that are component-wise suffixes of one another (a workspace
        // member mirroring the root layout), in either order of arrival
        let path = if dup_names && path.is_some() {
            let depth = if fi % 2 == 0 { 2 * n_feat - fi } else { fi };
            Some(format!("{}sim/features/dup.feature", "member/".repeat(depth)))
        } else {
            path
        };
        let fspice = if prof.spicy { *c.r.pick(SPICE) } else { "" };
        let fname = if dup_names { "Fdup feature".to_owned() } else { format!("{fid} feature{fspice}") };
        features.push(FeatureSpec { name: fname, path, tags: ftags, background, scenarios, rules, positionless });
    }
    drop(c);
    // one definition kind per (keyword, text): step definitions are registered per keyword and text,
    // so two steps sharing both cannot be defined differently
    {
        let mut kinds: BTreeMap<(String, String), Def> = BTreeMap::new();
        let mut fix = |st: &mut StepSpec| {
            let k = (st.kw.as_str().to_owned(), st.text.clone());
            st.def = *kinds.entry(k).or_insert(st.def);
        };
        for f in &mut features {
            f.background.iter_mut().for_each(&mut fix);
            for sc in &mut f.scenarios {
                sc.steps.iter_mut().for_each(&mut fix);
            }
            for ru in &mut f.rules {
                ru.background.iter_mut().for_each(&mut fix);
                for sc in &mut ru.scenarios {
                    sc.steps.iter_mut().for_each(&mut fix);
                }
            }
        }
    }
    // the same feature handed over twice (a parser repeating a file for soak runs): two values that are
    // equal in every field - only the identity of the `Source` tells them apart
    if !wide && !features.is_empty() && r.chance(prof.twin_features_pm, 1000) {
        let k = r.below(features.len() as u64) as usize;
        let twin = features[k].clone();
        features.push(twin);
    }

    // ---- parser items
    let mut items: Vec<ParserItem> = Vec::new();
    let lazy_max = *r.pick(&[1_000u64, 1_000_000, 1_000_000_000, 30_000_000_000]);
    let mut tokn = 0;
    for fi in 0..features.len() {
        if perr && r.chance(1, 4) {
            tokn += 1;
            let kind = if r.chance(1, 2) {
                ParserItemKind::ErrReading(format!("perr{tokn}"))
            } else {
                ParserItemKind::ErrExpansion(format!("perr{tokn}"))
            };
            items.push(ParserItem { kind, delay_ns: 0, pendings: 0 });
        }
        items.push(ParserItem { kind: ParserItemKind::Feature(fi), delay_ns: 0, pendings: 0 });
    }
    if perr && (tokn == 0 || r.chance(1, 4)) {
        tokn += 1;
        items.push(ParserItem { kind: ParserItemKind::ErrReading(format!("perr{tokn}")), delay_ns: 0, pendings: 0 });
    }
    if lazy {
        for it in &mut items {
            if r.chance(1, 2) {
                it.delay_ns = r.log_dur(lazy_max);
            }
            if r.chance(1, 3) {
                it.pendings = r.range(1, 3) as u32;
            }
        }
    }

    // ---- runner configuration
    let mut cfg = RunnerCfg::default();
    let small = r.chance(prof.small_limit_pm, 1000);
    let pick_limit = |r: &mut Rng| -> usize { if small { r.usize(1, 4) } else { *r.pick(&[1, 2, 3, 4, 8, 64]) } };
    match r.below(6) {
        0 => {} // default 64
        1 => cfg.cli_concurrency = Some(pick_limit(&mut r)),
        2 => cfg.builder_concurrency = BuilderLimit::Limit(pick_limit(&mut r)),
        3 => {
            cfg.cli_concurrency = Some(pick_limit(&mut r));
            cfg.builder_concurrency = BuilderLimit::Limit(pick_limit(&mut r));
        }
        4 => {
            cfg.builder_concurrency = BuilderLimit::Unlimited;
            if r.chance(1, 2) {
                // the CLI value must win over an unlimited builder setting
                cfg.cli_concurrency = Some(pick_limit(&mut r));
            }
        }
        _ => cfg.cli_concurrency = Some(pick_limit(&mut r)),
    }
    if wide {
        // 70 - 100 trivial scenarios ready at once: under the default limit of 64, without any limit, or under
        // a limit that happens to be larger than the default
        cfg = RunnerCfg::default();
        match r.below(3) {
            0 => {}
            1 => cfg.builder_concurrency = BuilderLimit::Unlimited,
            _ => cfg.cli_concurrency = Some(*r.pick(&[65usize, 128, 1000])),
        }
    }
    if retries_on {
        match r.below(5) {
            0 => cfg.cli_retry = Some(r.usize(0, max_retries)),
            1 => cfg.builder_retries = Some(r.usize(0, max_retries)),
            2 => {
                cfg.cli_retry = Some(r.usize(0, max_retries));
                cfg.builder_retries = Some(r.usize(0, max_retries));
            }
            3 => {
                // closure decides for a random subset of scenarios
                let mut map = BTreeMap::new();
                for f in &features {
                    let all = f.scenarios.iter().chain(f.rules.iter().flat_map(|r| r.scenarios.iter()));
                    for s in all {
                        for (name, _) in expanded_names(s) {
                            if r.chance(1, 2) {
                                let after = (retry_delay && r.chance(2, 3)).then(|| r.log_dur(3_000_000_000));
                                map.insert(name, (r.usize(0, max_retries), after));
                            }
                        }
                    }
                }
                cfg.closure_retry = Some(map);
            }
            _ => {}
        }
        if retry_delay && cfg.closure_retry.is_none() {
            match r.below(3) {
                0 => cfg.cli_retry_after_ns = Some(r.log_dur(3_000_000_000)),
                1 => cfg.builder_retry_after_ns = Some(r.log_dur(3_000_000_000)),
                _ => {}
            }
        }
    }
    if retries_on && cfg.closure_retry.is_none() && r.chance(1, 5) {
        // only scenarios whose inherited tags satisfy the expression get the configured retries
        let expr = (*r.pick(&["@serial", "not @serial", "not @allow.skipped", "@serial or @allow.skipped", "@serial and @allow.skipped", "@allow.skipped and @serial", "@allow.skipped or not @serial"])).to_owned();
        if r.chance(1, 2) {
            cfg.cli_retry_filter = Some(expr);
        } else {
            cfg.builder_retry_filter = Some(expr);
        }
    }
    if fail_fast {
        if r.chance(1, 2) {
            cfg.cli_fail_fast = true;
        } else {
            cfg.builder_fail_fast = true;
        }
    }
    cfg.custom_which = serial_on && r.chance(1, 4);

    // ---- behaviours
    let mut behaviours: BTreeMap<String, Vec<Behaviour>> = BTreeMap::new();
    let fault_pm: u64 = if faults_on { *r.pick(&[20, 80, 250, 500]) } else { 0 };
    let await_max = *r.pick(&[1_000u64, 1_000_000, 1_000_000_000, 100_000_000_000]);
    let await_pm: u64 = *r.pick(&[0, 300, 700, 1000]);
    // (wide plans: half of them without any await, so that the 70 - 100 scenarios complete in lock-step - a burst
    // of completions in one pass of the executor)
    let await_pm = if wide && r.chance(1, 2) { 0 } else { await_pm };
    let logs = prof.tracing;
    let log_burst = logs && r.chance(1, 3);
    // a flood: hundreds to thousands of events emitted at the very end of one callback - more than the
    // runner forwards or a writer buffers in one go at any conceivable batch size
    let log_flood = log_burst && r.chance(1, 2);
    let mut gen_beh = |r: &mut Rng, world: bool| -> Behaviour {
        let mut awaits = Vec::new();
        if r.chance(await_pm, 1000) {
            for _ in 0..r.usize(1, 3) {
                awaits.push(if r.chance(1, 5) { 0 } else { r.log_dur(await_max) });
            }
        }
        let outcome = if r.chance(fault_pm, 1000) {
            if world {
                *r.pick(&[Outcome::Err, Outcome::Err, Outcome::PanicString, Outcome::PanicStr, Outcome::PanicAny])
            } else {
                *r.pick(&[Outcome::PanicString, Outcome::PanicString, Outcome::PanicStr, Outcome::PanicAny])
            }
        } else {
            Outcome::Pass
        };
        let lg = if logs && world {
            // a World constructor logs now and then (it runs inside the before hook's or a step's span)
            if r.chance(1, 3) { (r.below(3) as u16, r.below(3) as u16) } else { (0, 0) }
        } else if logs {
            if log_flood && r.chance(1, 10) {
                (r.below(3) as u16, if r.chance(1, 2) { r.range(300, 1500) } else { r.range(1500, 5000) } as u16)
            } else if log_burst && r.chance(1, 12) {
                // a burst: many log events queued ahead of one result event
                (r.range(20, 120) as u16, r.below(3) as u16)
            } else if log_burst && r.chance(1, 12) {
                (r.below(3) as u16, r.range(20, 120) as u16)
            } else {
                (r.below(4) as u16, r.below(4) as u16)
            }
        } else {
            (0, 0)
        };
        let eager = outcome.is_fault() && outcome != Outcome::Err && r.chance(1, 4);
        Behaviour { awaits, outcome, logs: lg, eager }
    };
    let attempts = max_retries + 1;
    let mut total_attempts = 0usize;
    for f in &features {
        let f_scs: usize = f.scenarios.iter().map(|s| expanded_names(s).len()).sum::<usize>()
            + f.rules.iter().flat_map(|r| r.scenarios.iter()).map(|s| expanded_names(s).len()).sum::<usize>();
        for st in &f.background {
            let n = (f_scs * attempts).min(if wide { 4 } else { 30 });
            behaviours.insert(site_step(&st.text), (0..n).map(|_| gen_beh(&mut r, false)).collect());
        }
        let mut do_sc = |r: &mut Rng, s: &ScenarioSpec, behaviours: &mut BTreeMap<String, Vec<Behaviour>>| {
            for (name, texts) in expanded_names(s) {
                total_attempts += attempts;
                let n = if wide { 1 } else { attempts };
                if hooks {
                    behaviours.insert(site_before(&name), (0..n).map(|_| gen_beh(r, false)).collect());
                    behaviours.insert(site_after(&name), (0..n).map(|_| gen_beh(r, false)).collect());
                }
                for t in texts {
                    behaviours.insert(site_step(&t), (0..n).map(|_| gen_beh(r, false)).collect());
                }
            }
        };
        for s in &f.scenarios {
            do_sc(&mut r, s, &mut behaviours);
        }
        for rl in &f.rules {
            let r_scs: usize = rl.scenarios.iter().map(|s| expanded_names(s).len()).sum();
            for st in &rl.background {
                let n = (r_scs * attempts).min(30);
                behaviours.insert(site_step(&st.text), (0..n).map(|_| gen_beh(&mut r, false)).collect());
            }
            for s in &rl.scenarios {
                do_sc(&mut r, s, &mut behaviours);
            }
        }
    }
    let nworld = total_attempts.min(if wide { 8 } else { 80 });
    let world_fault_scale = r.chance(1, 2);
    behaviours.insert(
        SITE_WORLD.to_owned(),
        (0..nworld)
            .map(|_| {
                let mut b = gen_beh(&mut r, true);
                if !world_fault_scale && r.chance(2, 3) {
                    b.outcome = Outcome::Pass;
                }
                b
            })
            .collect(),
    );
    // prune all-default behaviours to keep plans small
    for v in behaviours.values_mut() {
        while v.last().is_some_and(|b| b.awaits.is_empty() && b.outcome == Outcome::Pass && b.logs == (0, 0)) {
            v.pop();
        }
    }
    behaviours.retain(|_, v| !v.is_empty());

    // ---- hooks
    let (before_hook, after_hook) = if hooks {
        match r.below(4) {
            0 => (true, false),
            1 => (false, true),
            _ => (true, true),
        }
    } else {
        (false, false)
    };

    // ---- scheduler
    let sched = SchedKnobs {
        seed: r.next_u64(),
        batch: if noise { *r.pick(&[1, 1, 2, 3, 8]) } else { 1 },
        spurious_pm: if noise { *r.pick(&[0, 0, 50, 300]) } else { 0 },
        busy_k: r.range(1, 4) as u32,
        oversleep_ns: if noise && r.chance(1, 2) { r.log_dur(1_000_000_000) } else { 0 },
        consumer_pm: if noise { *r.pick(&[0, 0, 30, 200]) } else { 0 },
        fresh_wakers: noise && r.chance(1, 4),
    };

    // a quarter of the runner-world plans go through the `Cucumber` builder and `filter_run` (world P);
    // some plans come with a filter that rejects every scenario of one rule
    let pipeline = r.chance(prof.pipeline_pm, 1000);
    let mut filtered_rules = Vec::new();
    if prof.pipeline_pm > 0 && !dup_names && r.chance(1, 6) {
        let with_rules: Vec<usize> = (0..features.len()).filter(|i| !features[*i].rules.is_empty()).collect();
        if !with_rules.is_empty() {
            let fi = *r.pick(&with_rules);
            // (a twin of that feature, if any, is filtered alike: the closure sees names)
            let ri = r.below(features[fi].rules.len() as u64) as usize;
            for (j, f) in features.iter().enumerate() {
                if f.name == features[fi].name && f.rules.len() > ri && f.rules[ri].name == features[fi].rules[ri].name {
                    filtered_rules.push((j, ri));
                }
            }
        }
    }

    let tracing_targets_only = prof.tracing && r.chance(1, 8);
    let late_logs = prof.tracing && !tracing_targets_only && r.chance(1, 2);
    let plain_logs = prof.tracing && r.chance(1, 4);
    let nested_runs = prof.tracing && !tracing_targets_only && !plain_logs && prof.nested_pm > 0 && r.chance(prof.nested_pm, 1000);
    let tags_filter = (prof.pipeline_pm > 0 && r.chance(1, 8))
        .then(|| (*r.pick(&["not @serial", "not @allow.skipped", "@serial or not @allow.skipped", "@allow.skipped and not @serial", "@allow.skipped or @serial"])).to_owned());
    let mut cfg = cfg;
    if tracing_targets_only {
        cfg.cli_concurrency = Some(1);
    }
    // (only expressions whose reading does not depend on operator precedence: the gherkin crate's grammar
    // gives `not`, `and` and `or` one level, so `not @a and @b` is `not (@a and @b)` there)
    // (`filter_run` consults the `--tags` expression INSTEAD of the filter closure)
    if tags_filter.is_some() {
        filtered_rules.clear();
    }
    cfg.tags_filter = tags_filter;

    Plan {
        seed,
        features,
        items,
        before_hook,
        after_hook,
        cfg,
        behaviours,
        sched,
        writer: WriterCfg::default(),
        tracing: prof.tracing,
        pipeline,
        filtered_rules,
        tracing_targets_only,
        late_logs,
        plain_logs,
        nested_runs,
    }
}
