//! World T (tracing build only): `Cucumber::custom(SimParser, runner::Basic, recording writer)`
//! with the real tracing `Collector` installed through `configure_and_init_tracing`. The global
//! subscriber can be initialised once per process, so this world executes ONE run per process.

use std::{cell::RefCell, collections::BTreeMap, rc::Rc};

use cucumber::{Cucumber, Event, Writer, cli, event, parser, writer};
use tracing_subscriber::{
    filter::LevelFilter,
    fmt::format::{self, Format},
    layer::{Layer as _, SubscriberExt as _},
};

use crate::{
    core::{self, RunEnd, SimCore},
    model::{Analysis, Violation},
    parser::{SimParser, SimParserStream},
    plan::Plan,
    record::{Ev, K, Recorder},
    runa::{self, History, Quiescent},
    world::{self, CbKind, SimWorld},
};

/// Sole writer of the pipeline: records the raw stream (claims `Normalized` so that
/// `Cucumber::run` accepts it without a `Normalize` in front).
struct RawRec {
    core: Rc<SimCore>,
    rec: Recorder,
    events: Rc<RefCell<Vec<Ev>>>,
    polls: Rc<RefCell<Vec<u64>>>,
    /// `Some(k)`: the writer emits a tracing event of its own on every k-th event it handles.
    log_every: Option<usize>,
    logged: u32,
    /// The writer is in the middle of its I/O: the runner is not being polled, no quiescent point.
    busy: Rc<std::cell::Cell<bool>>,
}

impl Writer<SimWorld> for RawRec {
    type Cli = cli::Empty;
    async fn handle_event(&mut self, ev: parser::Result<Event<event::Cucumber<SimWorld>>>, _: &cli::Empty) {
        // a "helper task" logging on behalf of a step / hook that is awaiting (explicit parent span)
        world::emit_on_behalf();
        // a writer doing its I/O first: the runner is not polled meanwhile (or is, if the pipeline's loop
        // tries to be clever), and the event is taken note of only afterwards
        let pm = self.core.knobs.consumer_pm;
        if pm > 0 {
            let stall = {
                let mut r = self.core.rng.borrow_mut();
                r.chance(u64::from(pm), 1000).then(|| if r.chance(1, 2) { 0 } else { r.log_dur(10_000_000) })
            };
            if let Some(d) = stall {
                self.core.stats.borrow_mut().consumer_stalls += 1;
                self.busy.set(true);
                if d == 0 {
                    self.core.yield_now().await;
                } else {
                    self.core.sleep(d, core::LABEL_WRITER).await;
                }
                self.busy.set(false);
            }
        }
        let e = self.rec.record(&ev);
        self.core.progress();
        self.events.borrow_mut().push(e);
        self.polls.borrow_mut().push(self.core.stats.borrow().root_polls);
        // a writer that logs through tracing itself (outside every scenario span: the collector
        // forwards such a log to all scenarios it considers running)
        // (never in reaction to a Log event, and only a few times per run: every such log comes back
        // as one Log event per running scenario)
        if let Some(k) = self.log_every {
            let is_log = matches!(self.events.borrow().last().map(|e| &e.k), Some(K::Log(_)));
            let n = self.events.borrow().len();
            if !is_log && n % k == 0 && self.logged < 8 {
                self.logged += 1;
                tracing::warn!("consumer-log {n}");
            }
        }
    }
}

impl writer::Normalized for RawRec {}

/// Executes `plan` with the tracing collector installed. Must be called at most once per process.
pub fn run_world_t(plan: &Rc<Plan>) -> Result<History, String> {
    let core = SimCore::new(plan.sched.clone());
    core.quiesce_polls.set(crate::check::quiesce_polls_for(plan));
    core::install_hooks(&core);
    let ctx = world::install_run(&core, plan, true);
    runa::install_counting_hook();
    let hook_before = runa::PANIC_HOOK_COUNT.load(std::sync::atomic::Ordering::SeqCst);

    let stream = SimParserStream::new(&core, plan)?;
    let plog = Rc::clone(&stream.log);
    let events = Rc::new(RefCell::new(Vec::new()));
    let polls = Rc::new(RefCell::new(Vec::new()));
    let busy = Rc::new(std::cell::Cell::new(false));
    let wr = RawRec { core: Rc::clone(&core), rec: Recorder::new(&core), events: Rc::clone(&events), polls: Rc::clone(&polls), log_every: (plan.seed % 3 == 0).then(|| 2 + (plan.seed / 3 % 5) as usize), logged: 0, busy: Rc::clone(&busy) };
    let opts = cli::Opts { re_filter: None, tags_filter: None, parser: cli::Empty, runner: runa::build_cli(plan), writer: cli::Empty, custom: cli::Empty };
    let warn = world::warn_filter_of(plan);
    // Where the runner gets its configuration: before it enters the pipeline (0), or through `Cucumber`'s
    // forwarding methods - called after tracing has been initialised (1: the order the book shows) or before (2).
    let order = plan.seed / 7 % 3;
    let base: crate::runp::CucOf<RawRec> = if order == 0 {
        Cucumber::custom(SimParser(stream), runa::build_runner(plan), wr)
    } else {
        Cucumber::custom(SimParser(stream), runa::SimRunner::default(), wr)
    };
    let base = if order == 2 { crate::runp::hooks_and_classifiers(crate::runp::configure(base, plan), plan) } else { base };
    let cuc = if plan.tracing_targets_only {
        // only the user's own targets are enabled: cucumber's spans are filtered out
        base.configure_and_init_tracing(format::DefaultFields::new(), Format::default().without_time().with_ansi(false), |layer| {
            tracing_subscriber::registry().with(tracing_subscriber::filter::Targets::new().with_target("cucumber_sim", tracing::Level::INFO).and_then(layer))
        })
    } else {
        base.configure_and_init_tracing(format::DefaultFields::new(), Format::default().without_time().with_ansi(false), |layer| {
            tracing_subscriber::registry().with(if warn { LevelFilter::WARN } else { LevelFilter::INFO }.and_then(layer))
        })
    };
    let cuc = if order == 1 { crate::runp::hooks_and_classifiers(crate::runp::configure(cuc, plan), plan) } else { cuc };
    let cuc = cuc.with_cli(opts);
    let ended = Rc::new(std::cell::Cell::new(false));
    let ended2 = Rc::clone(&ended);
    // Half of the runs poll the whole pipeline inside a span of the caller's own (a user who
    // `#[instrument]`s the test main): the scenario span is then not the root of the scope.
    let outer_span = plan.seed % 2 == 1 && !plan.plain_logs;
    let fut = async move {
        let _wr = cuc.filter_run((), |_, _, _| true).await;
        ended2.set(true);
    };
    // The helper that outlives callbacks (`Plan.late_logs`): a task of its own next to the pipeline (it never
    // wakes the pipeline's task), it takes the detained spans one by one, waits a little (simulated time), logs
    // inside the span and lets it close.
    if plan.late_logs {
        let core2 = Rc::clone(&core);
        let ctx = Rc::clone(&ctx);
        let mut current: Option<(std::pin::Pin<Box<dyn std::future::Future<Output = ()>>>, tracing::Span, usize, bool)> = None;
        let helper = std::future::poll_fn(move |cx| {
            let core = &core2;
            loop {
                if let Some((sleep, ..)) = current.as_mut() {
                    if sleep.as_mut().poll(cx).is_pending() {
                        return std::task::Poll::Pending;
                    }
                    let (_, span, idx, via_thread) = current.take().expect("checked");
                    core.stats.borrow_mut().late_logs += 1;
                    core.progress();
                    world::emit_late(span, idx, via_thread);
                    continue;
                }
                let next = ctx.detained.borrow_mut().pop_front();
                match next {
                    Some((span, idx)) => {
                        let (d, via_thread) = {
                            let mut r = core.rng.borrow_mut();
                            (if r.chance(1, 3) { 0 } else { r.log_dur(3_000_000) }, r.chance(1, 2))
                        };
                        let sleep: std::pin::Pin<Box<dyn std::future::Future<Output = ()>>> =
                            if d == 0 { Box::pin(core.yield_now()) } else { Box::pin(core.sleep(d, core::LABEL_WRITER)) };
                        current = Some((sleep, span, idx, via_thread));
                    }
                    None => {
                        // woken by the callback that detains the next span
                        *ctx.helper_waker.borrow_mut() = Some(cx.waker().clone());
                        return std::task::Poll::<()>::Pending;
                    }
                }
            }
        });
        core.spawn_aux(Box::pin(helper));
    }
    let root: std::pin::Pin<Box<dyn std::future::Future<Output = ()>>> = if outer_span {
        Box::pin(tracing::Instrument::instrument(fut, tracing::error_span!("suite", run = 1)))
    } else {
        Box::pin(fut)
    };
    let mut quiescent = Vec::new();
    let outcome = {
        let events = Rc::clone(&events);
        let plog = Rc::clone(&plog);
        let ctx2 = Rc::clone(&ctx);
        let core2 = Rc::clone(&core);
        let busy = Rc::clone(&busy);
        core::run_root(&core, root, &mut |info| {
            if info.quiescent && !busy.get() {
                let pl = plog.borrow();
                quiescent.push(Quiescent {
                    events: events.borrow().len(),
                    cbs: ctx2.cb_log.borrow().len(),
                    clock: core2.peek_ns(),
                    delivered: pl.delivered.len(),
                    parser_done: pl.finished_at.is_some(),
                });
            }
        })
    };
    let hook_count_during = runa::PANIC_HOOK_COUNT.load(std::sync::atomic::Ordering::SeqCst) - hook_before;
    let before_probe = runa::PANIC_HOOK_COUNT.load(std::sync::atomic::Ordering::SeqCst);
    let _ = std::panic::catch_unwind(|| std::panic::panic_any(0u8));
    let hook_restored = runa::PANIC_HOOK_COUNT.load(std::sync::atomic::Ordering::SeqCst) == before_probe + 1;
    core::uninstall_hooks();
    world::uninstall_run();
    let evs = events.borrow().clone();
    let after_fin = evs.iter().position(|e| matches!(e.k, K::RunFinished)).map_or(0, |p| evs.len() - p - 1);
    Ok(History {
        events: evs,
        event_poll: polls.borrow().clone(),
        quiescent,
        cb: ctx.cb_log.borrow().clone(),
        parser: plog.borrow().clone(),
        end: outcome.end,
        stream_ended: ended.get(),
        items_after_finished: after_fin,
        escaped_panic: outcome.panic_payload.as_deref().map(|p| {
            p.downcast_ref::<String>().cloned().or_else(|| p.downcast_ref::<&'static str>().map(|s| (*s).to_owned())).unwrap_or_else(|| "<non-string>".into())
        }),
        hook_count_during,
        hook_restored,
        stats: core.stats.borrow().clone(),
        probes: core.probes.borrow().iter().map(|(k, v)| ((*k).to_owned(), *v)).collect(),
        dispatch_times: core.dispatch_times.borrow().clone(),
        sched_digest: core.sched_digest.get(),
        sched_trace: core.sched_trace.borrow().clone(),
        max_in_callbacks: ctx.max_in_callbacks.get(),
    })
}

fn v(code: &str, msg: String) -> Violation {
    Violation::new("C20", code, msg)
}

/// C20: every log token is delivered exactly once, to the emitting attempt, between the
/// Started and the result event of the emitting step / hook.
pub fn c20(a: &Analysis<'_>, out: &mut Vec<Violation>) {
    if !a.complete() {
        if a.h.end != RunEnd::Finished {
            out.push(v("run-did-not-end", format!("tracing run ended with {:?} ({:?})", a.h.end, a.h.escaped_panic)));
        }
        return;
    }
    let evs = &a.h.events;
    // token -> indices of Log events carrying it
    let mut seen: BTreeMap<String, Vec<usize>> = BTreeMap::new();
    for (i, e) in evs.iter().enumerate() {
        if let K::Log(msg) = &e.k {
            if msg.contains("consumer-log") {
                continue; // emitted by the writer, outside every scenario span: not this property's business
            }
            let mut rest = msg.as_str();
            let mut any = false;
            while let Some(p) = rest.find("logtok") {
                let tail = &rest[p + 3..];
                if let Some(t) = crate::record::token_of(tail) {
                    seen.entry(format!("log{t}")).or_default().push(i);
                    any = true;
                }
                rest = &rest[p + 6..];
            }
            if !any {
                out.push(v("foreign-log", format!("Log event {i} carries no emitted token: {msg:?}")));
            }
        }
    }
    // World id -> scenario name (from callbacks that identify it)
    let mut world_scenario: BTreeMap<u64, String> = BTreeMap::new();
    // own (non-background) step site -> the scenario it belongs to, if it belongs to one only
    // (position-less plans may use one step text in two scenarios)
    let own_step_owner: BTreeMap<String, String> = {
        let mut owners: BTreeMap<String, std::collections::BTreeSet<String>> = BTreeMap::new();
        for s in a.st.scenarios.values() {
            for (t, _, bg) in &s.steps {
                if !*bg {
                    owners.entry(crate::plan::site_step(t)).or_default().insert(s.name.clone());
                }
            }
        }
        owners.into_iter().filter(|(_, names)| names.len() == 1).map(|(site, names)| (site, names.into_iter().next().unwrap())).collect()
    };
    for c in &a.h.cb {
        let Some(w) = c.world else { continue };
        let name = match c.kind {
            CbKind::Before | CbKind::After => c.scenario.clone(),
            CbKind::Step => own_step_owner.get(&c.site).cloned(),
            CbKind::WorldNew => None,
        };
        if let Some(n) = name {
            world_scenario.entry(w).or_insert(n);
        }
    }
    for c in &a.h.cb {
        if c.log_tokens.is_empty() {
            continue;
        }
        let scenario: Option<String> = match c.kind {
            CbKind::Before | CbKind::After => c.scenario.clone(),
            CbKind::Step => own_step_owner.get(&c.site).cloned().or_else(|| c.world.and_then(|w| world_scenario.get(&w).cloned())),
            // a World constructor: the scenario is known once a hook or own step identified the World it made
            CbKind::WorldNew => c.world.and_then(|w| world_scenario.get(&w).cloned()),
        };
        // candidate emitting attempts: attempts of that scenario (or, for a background step whose
        // World never met a scenario-identifying callback, of any scenario having that step) whose
        // window contains the callback
        let candidates: Vec<&crate::model::Attempt> = a
            .attempts
            .iter()
            .filter(|t| {
                scenario.as_ref().is_none_or(|s| &t.scenario == s)
                    && t.started.is_some_and(|s| evs[s].at < c.enter)
                    && t.finished.is_some_and(|f| evs[f].at > c.exit.unwrap_or(c.enter))
                    && (scenario.is_some()
                        || c.kind == CbKind::WorldNew
                        || a.st.scenarios.get(&t.scenario).is_some_and(|sc| sc.steps.iter().any(|(tx, _, _)| crate::plan::site_step(tx) == c.site)))
            })
            .collect();
        if candidates.is_empty() {
            out.push(v("harness-cannot-attribute", format!("callback {} [{}..{:?}] matches no attempt", c.site, c.enter, c.exit)));
            continue;
        }
        let kind = format!("{:?}", c.kind);
        for tok in &c.log_tokens {
            match seen.get(tok).map(Vec::as_slice) {
                None | Some([]) => out.push(v("log-lost", format!("log {tok} emitted in {} (scenario {scenario:?}) never arrived as a Log event", c.site)).attr("emitter", &kind)),
                Some([i]) => {
                    let e = &evs[*i];
                    let Some(at) = candidates.iter().find(|t| e.attempt_key() == Some(t.key)) else {
                        out.push(
                            v("log-misattributed", format!("log {tok} emitted in {} of {:?} was delivered as {}", c.site, candidates.iter().map(|t| (&t.scenario, t.retries)).collect::<Vec<_>>(), e.short()))
                                .attr("emitter", &kind),
                        );
                        continue;
                    };
                    // Started / result events of the emitting step or hook inside that attempt
                    let (start_idx, result_idx) = match c.kind {
                        CbKind::Before => (
                            at.seq.iter().copied().find(|i| matches!(evs[*i].k, K::HookStarted(crate::record::Hk::Before))),
                            at.seq.iter().copied().find(|i| matches!(evs[*i].k, K::HookPassed(crate::record::Hk::Before) | K::HookFailed(crate::record::Hk::Before, ..))),
                        ),
                        CbKind::After => (
                            at.seq.iter().copied().find(|i| matches!(evs[*i].k, K::HookStarted(crate::record::Hk::After))),
                            at.seq.iter().copied().find(|i| matches!(evs[*i].k, K::HookPassed(crate::record::Hk::After) | K::HookFailed(crate::record::Hk::After, ..))),
                        ),
                        CbKind::Step => {
                            let is = |i: &usize| evs[*i].step.as_ref().is_some_and(|s| crate::plan::site_step(&s.text) == c.site);
                            // a scenario may hold the same step more than once: the n-th callback of the
                            // site on this World belongs to the n-th Started / result of that step
                            let occ = a.h.cb.iter().filter(|d| d.kind == CbKind::Step && d.site == c.site && d.world == c.world && d.enter < c.enter).count();
                            (
                                at.seq.iter().copied().filter(|i| is(i) && matches!(evs[*i].k, K::StepStarted { .. })).nth(occ),
                                at.seq.iter().copied().filter(|i| is(i) && matches!(evs[*i].k, K::StepPassed { .. } | K::StepFailed { .. } | K::StepSkipped { .. })).nth(occ),
                            )
                        }
                        // World::new runs inside the before hook if one is set, else inside the first
                        // step that needs a World: the step started last before the constructor ran
                        CbKind::WorldNew if a.plan.before_hook => (
                            at.seq.iter().copied().find(|i| matches!(evs[*i].k, K::HookStarted(crate::record::Hk::Before))),
                            at.seq.iter().copied().find(|i| matches!(evs[*i].k, K::HookPassed(crate::record::Hk::Before) | K::HookFailed(crate::record::Hk::Before, ..))),
                        ),
                        CbKind::WorldNew => {
                            let s = at.seq.iter().copied().filter(|i| matches!(evs[*i].k, K::StepStarted { .. }) && evs[*i].at < c.enter).last();
                            let r = s.and_then(|s| at.seq.iter().copied().find(|i| *i > s && matches!(evs[*i].k, K::StepPassed { .. } | K::StepFailed { .. } | K::StepSkipped { .. })));
                            (s, r)
                        }
                    };
                    let after_start = start_idx.is_some_and(|s| s < *i);
                    let before_result = result_idx.is_some_and(|r| *i < r);
                    if !after_start || !before_result {
                        out.push(
                            v(
                                "log-misplaced",
                                format!(
                                    "log {tok} emitted in {} of {} {:?} is event #{i}, the emitter's Started is #{start_idx:?} and its result #{result_idx:?}",
                                    c.site, at.scenario, at.retries
                                ),
                            )
                            .attr("emitter", &kind)
                            .attr("where", if !after_start { "before-started" } else { "after-result" }),
                        );
                    }
                }
                Some(many) => out.push(v("log-duplicated", format!("log {tok} delivered {} times", many.len())).attr("emitter", &kind)),
            }
        }
    }
    let emitted: std::collections::BTreeSet<&String> = a.h.cb.iter().flat_map(|c| c.log_tokens.iter()).collect();
    for t in seen.keys() {
        if !emitted.contains(t) {
            out.push(v("log-unknown", format!("Log event carries token {t} that no callback emitted")));
        }
    }
}
