//! World C: writers driven by synthetic histories. Decides C11 (Normalize), C13 (combinators)
//! and C12 (Summarize counters).

use std::{
    cell::{Cell, RefCell},
    collections::{BTreeMap, BTreeSet},
    rc::Rc,
};

use cucumber::{
    Event, Writer, WriterExt as _, cli,
    event::{self, Cucumber},
    parser,
    writer::{self, Arbitrary, Stats as _},
};
use serde::{Deserialize, Serialize};

use crate::{
    core::{self, LABEL_WRITER, Rng, RunEnd, SchedStats, SimCore},
    history::{self, HistoryShape, Item},
    model::Violation,
    plan::Plan,
    record::{Ev, K, Recorder},
    world::SimWorld,
};

// ---------------------------------------------------------------------------------------------
// Recording inner writer

#[derive(Default)]
pub struct RecLog {
    /// (index of the driving `handle_event` call, recorded event)
    pub events: Vec<(usize, Ev)>,
    /// (number of events received before the write, text)
    pub writes: Vec<(usize, String)>,
}

pub struct Shared {
    pub core: Rc<SimCore>,
    pub rec: RefCell<Recorder>,
    /// Index of the current top-level `handle_event` call.
    pub call: Cell<usize>,
    pub slow_pm: u32,
    pub rng: RefCell<Rng>,
    pub slow_pendings: Cell<u64>,
}

pub struct Rec {
    pub sh: Rc<Shared>,
    pub log: Rc<RefCell<RecLog>>,
    /// Numbers returned by the `Stats` getters.
    pub stats: [usize; 6],
}

impl Rec {
    pub fn new(sh: &Rc<Shared>, stats: [usize; 6]) -> (Self, Rc<RefCell<RecLog>>) {
        let log = Rc::new(RefCell::new(RecLog::default()));
        (Self { sh: Rc::clone(sh), log: Rc::clone(&log), stats }, log)
    }

    async fn slow(&self) {
        if self.sh.slow_pm == 0 {
            return;
        }
        let (n, dur) = {
            let mut r = self.sh.rng.borrow_mut();
            if !r.chance(u64::from(self.sh.slow_pm), 1000) {
                return;
            }
            (r.range(1, 3), r.log_dur(1_000_000))
        };
        for i in 0..n {
            self.sh.slow_pendings.set(self.sh.slow_pendings.get() + 1);
            if i % 2 == 0 {
                self.sh.core.yield_now().await;
            } else {
                self.sh.core.sleep(dur, LABEL_WRITER).await;
            }
        }
    }
}

impl Writer<SimWorld> for Rec {
    type Cli = cli::Empty;

    async fn handle_event(&mut self, ev: parser::Result<Event<Cucumber<SimWorld>>>, _: &cli::Empty) {
        self.slow().await;
        let e = self.sh.rec.borrow_mut().record(&ev);
        self.log.borrow_mut().events.push((self.sh.call.get(), e));
        self.slow().await;
    }
}

impl Arbitrary<SimWorld, String> for Rec {
    async fn write(&mut self, val: String) {
        self.slow().await;
        let n = self.log.borrow().events.len();
        self.log.borrow_mut().writes.push((n, val));
    }
}

impl writer::Stats<SimWorld> for Rec {
    fn passed_steps(&self) -> usize {
        self.stats[0]
    }
    fn skipped_steps(&self) -> usize {
        self.stats[1]
    }
    fn failed_steps(&self) -> usize {
        self.stats[2]
    }
    fn retried_steps(&self) -> usize {
        self.stats[3]
    }
    fn parsing_errors(&self) -> usize {
        self.stats[4]
    }
    fn hook_errors(&self) -> usize {
        self.stats[5]
    }
}

impl writer::NonTransforming for Rec {}
impl writer::Normalized for Rec {}

// ---------------------------------------------------------------------------------------------
// Driving

#[derive(Clone, Debug, Default, Serialize, Deserialize)]
pub struct CHistory {
    pub input: Vec<Ev>,
    /// Outputs of the recording writers: name -> (call index, event)
    pub outputs: BTreeMap<String, Vec<(usize, Ev)>>,
    pub writes: BTreeMap<String, Vec<(usize, String)>>,
    /// Named numbers observed on the writer under test after the run.
    pub numbers: BTreeMap<String, i64>,
    pub shape: HistoryShape,
    pub end: Option<RunEnd>,
    pub escaped_panic: Option<String>,
    pub stats: SchedStats,
    pub sched_digest: u64,
    pub slow_pendings: u64,
    pub stack: String,
}

impl CHistory {
    pub fn digest(&self) -> u64 {
        let mut h = core::FNV_INIT;
        for e in &self.input {
            core::fnv(&mut h, e.k.tag().as_bytes());
            core::fnv(&mut h, &e.at.to_le_bytes());
        }
        for (name, out) in &self.outputs {
            core::fnv(&mut h, name.as_bytes());
            for (c, e) in out {
                core::fnv(&mut h, &(*c as u64).to_le_bytes());
                core::fnv(&mut h, e.k.tag().as_bytes());
                core::fnv(&mut h, &e.at.to_le_bytes());
            }
        }
        for (k, v) in &self.numbers {
            core::fnv(&mut h, k.as_bytes());
            core::fnv(&mut h, &v.to_le_bytes());
        }
        core::fnv(&mut h, &self.sched_digest.to_le_bytes());
        h
    }
}

/// Drives `writer` with `items` under the simulated executor.
fn drive<Wr: Writer<SimWorld>>(
    core: &Rc<SimCore>,
    sh: &Rc<Shared>,
    mut writer: Wr,
    cli: Wr::Cli,
    items: Vec<Item>,
    after: &mut dyn FnMut(&Wr),
) -> (RunEnd, Option<String>) {
    let done_writer: Rc<RefCell<Option<Wr>>> = Rc::new(RefCell::new(None));
    let outcome = {
        let done_writer = Rc::clone(&done_writer);
        let sh = Rc::clone(sh);
        let root = Box::pin(async move {
            for (i, it) in items.into_iter().enumerate() {
                sh.call.set(i);
                sh.core.progress();
                writer.handle_event(it, &cli).await;
            }
            *done_writer.borrow_mut() = Some(writer);
        });
        core::run_root(core, root, &mut |_| {})
    };
    if let Some(w) = done_writer.borrow().as_ref() {
        after(w);
    }
    let payload = outcome.panic_payload.as_deref().map(|p| {
        p.downcast_ref::<String>().cloned().or_else(|| p.downcast_ref::<&'static str>().map(|s| (*s).to_owned())).unwrap_or_else(|| "<non-string>".into())
    });
    (outcome.end, payload)
}

fn custom_fos(_f: &cucumber::gherkin::Feature, _r: Option<&cucumber::gherkin::Rule>, s: &cucumber::gherkin::Scenario) -> bool {
    // custom predicate: fail skipped steps of scenarios whose name contains an even digit sum... keep simple: names ending in 0/2/4
    custom_fos_name(&crate::plan::scenario_identity(s))
}

pub fn custom_fos_name(name: &str) -> bool {
    name.chars().rev().find(char::is_ascii_digit).is_some_and(|c| (c as u8 - b'0') % 2 == 0)
}

fn or_pred(ev: &parser::Result<Event<Cucumber<SimWorld>>>, _: &cli::Compose<cli::Empty, cli::Empty>) -> bool {
    // left gets everything whose timestamp is even, and parse errors
    match ev {
        Err(_) => true,
        Ok(e) => e.at.duration_since(std::time::UNIX_EPOCH).map(|d| d.subsec_nanos() % 2 == 0).unwrap_or(true),
    }
}

pub const STACKS_C11: &[&str] = &["normalize"];
pub const STACKS_C13: &[&str] = &[
    "fos", "fos_custom", "repeat_skipped", "repeat_failed", "repeat_if", "tee", "or", "fos_repeat_failed", "repeat_failed_tee", "tee_of_fos", "or_of_repeat", "repeat_all",
];
pub const STACKS_C12: &[&str] = &["summarize", "repeat_failed_summarize", "repeat_skipped_summarize", "summarize_normalize", "fos_summarize", "repeat_all_summarize"];

/// C12 on a real-runner history: `Summarize<Normalize<Rec>>` (the shipped default shape) as the
/// writer of the whole pipeline, driven by a simulated run of `runner::Basic`.
pub fn run_real_runner_c12(plan: &Rc<Plan>) -> Result<CHistory, String> {
    let core = SimCore::new(plan.sched.clone());
    core::install_hooks(&core);
    let sh = Rc::new(Shared {
        core: Rc::clone(&core),
        rec: RefCell::new(Recorder::new(&core)),
        call: Cell::new(0),
        slow_pm: plan.writer.slow_pm,
        rng: RefCell::new(Rng::new(plan.writer.sink_seed ^ 0x5151)),
        slow_pendings: Cell::new(0),
    });
    let (a, la) = Rec::new(&sh, [0; 6]);
    let w = writer::Normalize::new(a).summarized();
    let rr = crate::runb::run_filter_run(&core, plan, w, cli::Empty)?;
    core::uninstall_hooks();
    let mut ch = CHistory { input: rr.raw.clone(), stack: "real_runner_summarize_normalize".to_owned(), ..CHistory::default() };
    ch.end = Some(rr.end);
    ch.escaped_panic = rr.panic_msg.clone();
    let mut numbers: BTreeMap<String, i64> = BTreeMap::new();
    if let Some(w) = &rr.writer {
        let (sc, st) = (*w.scenarios_stats(), *w.steps_stats());
        for (k, v) in [
            ("sc_passed", sc.passed), ("sc_skipped", sc.skipped), ("sc_failed", sc.failed), ("sc_retried", sc.retried),
            ("st_passed", st.passed), ("st_skipped", st.skipped), ("st_failed", st.failed), ("st_retried", st.retried),
            ("passed", w.passed_steps()), ("skipped", w.skipped_steps()), ("failed", w.failed_steps()), ("retried", w.retried_steps()),
            ("parsing_errors", w.parsing_errors()), ("hook_errors", w.hook_errors()), ("has_failed", usize::from(w.execution_has_failed())),
        ] {
            numbers.insert(k.to_owned(), v as i64);
        }
    }
    ch.numbers = numbers;
    {
        // the raw stream and the writer's input were recorded by two recorders, each numbering the
        // `Source` pointers it meets on its own: carry the raw stream's ids over (events are identified
        // by their unique virtual timestamp)
        let ids: BTreeMap<u64, (usize, usize, usize, Option<usize>)> =
            ch.input.iter().filter(|e| e.at != 0).map(|e| (e.at, (e.fptr, e.rptr, e.sptr, e.step.as_ref().map(|s| s.ptr)))).collect();
        let l = la.borrow();
        let events: Vec<(usize, Ev)> = l
            .events
            .iter()
            .map(|(c, e)| {
                let mut e = e.clone();
                if let Some((f, r, s, st)) = ids.get(&e.at) {
                    (e.fptr, e.rptr, e.sptr) = (*f, *r, *s);
                    if let (Some(step), Some(p)) = (e.step.as_mut(), st) {
                        step.ptr = *p;
                    }
                }
                (*c, e)
            })
            .collect();
        ch.outputs.insert("out".to_owned(), events);
        ch.writes.insert("out".to_owned(), l.writes.clone());
    }
    ch.shape.events = ch.input.len();
    ch.shape.attempts = ch.input.iter().filter(|e| matches!(e.k, K::ScStarted)).count();
    ch.shape.failed_attempts = ch.input.iter().filter(|e| matches!(e.k, K::StepFailed { .. })).count();
    ch.shape.skipped_attempts = ch.input.iter().filter(|e| matches!(e.k, K::StepSkipped { .. })).count();
    ch.shape.hook_failures = ch.input.iter().filter(|e| matches!(e.k, K::HookFailed(..))).count();
    ch.shape.parse_errors = ch.input.iter().filter(|e| matches!(e.k, K::ParseError(_))).count();
    ch.stats = rr.stats;
    ch.sched_digest = rr.sched_digest;
    ch.slow_pendings = sh.slow_pendings.get();
    Ok(ch)
}

/// Executes one writer-world run: `which` selects the writer stack under test.
pub fn run_world_c(plan: &Rc<Plan>, which: &str) -> Result<CHistory, String> {
    let core = SimCore::new(plan.sched.clone());
    core::install_hooks(&core);
    crate::runa::install_counting_hook();
    let sh = Rc::new(Shared {
        core: Rc::clone(&core),
        rec: RefCell::new(Recorder::new(&core)),
        call: Cell::new(0),
        slow_pm: plan.writer.slow_pm,
        rng: RefCell::new(Rng::new(plan.writer.sink_seed ^ 0x5151)),
        slow_pendings: Cell::new(0),
    });
    let mut hseed_rng = Rng::new(plan.writer.sink_seed);
    let hseed = hseed_rng.next_u64();
    let (mut items, shape) = history::generate_with_logs(plan, &core, hseed, true)?;
    let abiding = !(which.starts_with("x_"));
    let which = which.trim_start_matches("x_");
    if !abiding {
        // arbitrary stream: shuffle / truncate / duplicate (per-event wrappers only)
        let mut r = Rng::new(hseed ^ 77);
        let n = items.len();
        for i in (1..n).rev() {
            if r.chance(1, 3) {
                let j = r.below(i as u64 + 1) as usize;
                items.swap(i, j);
            }
        }
        if r.chance(1, 3) && n > 2 {
            items.truncate(r.usize(1, n - 1));
        }
        if r.chance(1, 3) {
            let k = r.below(items.len() as u64) as usize;
            let dup = items[k].clone();
            items.insert(k, dup);
        }
    }
    let input: Vec<Ev> = items.iter().map(|it| sh.rec.borrow_mut().record(it)).collect();
    let mut ch = CHistory { input, shape, stack: which.to_owned(), ..CHistory::default() };
    let mut srng = Rng::new(hseed ^ 0xABCD);
    // (every counter is zero half of the time: the verdict derived from them - execution_has_failed() - must be
    // exercised with a single kind of failure present, e.g. hook errors only)
    let mut rand_stats = || -> [usize; 6] { [0; 6].map(|_| if srng.chance(1, 2) { 0 } else { srng.below(50) as usize }) };
    let e = cli::Empty;
    let comp = || cli::Compose { left: cli::Empty, right: cli::Empty };

    macro_rules! finish {
        ($end:expr, $logs:expr) => {{
            let (end, payload) = $end;
            ch.end = Some(end);
            ch.escaped_panic = payload;
            for (name, log) in $logs {
                let l = log.borrow();
                ch.outputs.insert(name.to_string(), l.events.clone());
                ch.writes.insert(name.to_string(), l.writes.clone());
            }
        }};
    }
    let put = |m: &mut BTreeMap<String, i64>, k: &str, v: usize| {
        m.insert(k.to_owned(), v as i64);
    };
    let mut numbers: BTreeMap<String, i64> = BTreeMap::new();
    macro_rules! stats_of {
        ($w:expr, $prefix:expr) => {{
            put(&mut numbers, &format!("{}passed", $prefix), $w.passed_steps());
            put(&mut numbers, &format!("{}skipped", $prefix), $w.skipped_steps());
            put(&mut numbers, &format!("{}failed", $prefix), $w.failed_steps());
            put(&mut numbers, &format!("{}retried", $prefix), $w.retried_steps());
            put(&mut numbers, &format!("{}parsing_errors", $prefix), $w.parsing_errors());
            put(&mut numbers, &format!("{}hook_errors", $prefix), $w.hook_errors());
            put(&mut numbers, &format!("{}has_failed", $prefix), usize::from($w.execution_has_failed()));
        }};
    }

    match which {
        "normalize" => {
            let (a, la) = Rec::new(&sh, [0; 6]);
            let w = writer::Normalize::new(a);
            let r = drive(&core, &sh, w, e, items, &mut |_| {});
            finish!(r, [("out", la)]);
        }
        "fos" => {
            let (a, la) = Rec::new(&sh, rand_stats());
            let st = a.stats;
            let w = a.fail_on_skipped();
            let r = drive(&core, &sh, w, e, items, &mut |w| stats_of!(w, ""));
            for (i, v) in st.iter().enumerate() {
                numbers.insert(format!("inner{i}"), *v as i64);
            }
            finish!(r, [("out", la)]);
        }
        "fos_custom" => {
            let (a, la) = Rec::new(&sh, [0; 6]);
            let w = a.fail_on_skipped_with(custom_fos);
            let r = drive(&core, &sh, w, e, items, &mut |_| {});
            finish!(r, [("out", la)]);
        }
        "repeat_skipped" => {
            let (a, la) = Rec::new(&sh, [0; 6]);
            let w = a.repeat_skipped();
            let r = drive(&core, &sh, w, e, items, &mut |_| {});
            finish!(r, [("out", la)]);
        }
        "repeat_failed" => {
            let (a, la) = Rec::new(&sh, [0; 6]);
            let w = a.repeat_failed();
            let r = drive(&core, &sh, w, e, items, &mut |_| {});
            finish!(r, [("out", la)]);
        }
        "repeat_if" => {
            let (a, la) = Rec::new(&sh, [0; 6]);
            let w = a.repeat_if(|ev: &parser::Result<Event<Cucumber<SimWorld>>>| {
                matches!(ev.as_deref(), Ok(Cucumber::Feature(_, event::Feature::Started | event::Feature::Finished)))
            });
            let r = drive(&core, &sh, w, e, items, &mut |_| {});
            finish!(r, [("out", la)]);
        }
        "repeat_all" => {
            // a custom filter that selects everything, run-level events and run-Finished included
            let (a, la) = Rec::new(&sh, [0; 6]);
            let w = a.repeat_if(|_: &parser::Result<Event<Cucumber<SimWorld>>>| true);
            let r = drive(&core, &sh, w, e, items, &mut |_| {});
            finish!(r, [("out", la)]);
        }
        "tee" => {
            let (a, la) = Rec::new(&sh, rand_stats());
            let (b, lb) = Rec::new(&sh, rand_stats());
            let (sa, sb) = (a.stats, b.stats);
            let mut w = a.tee::<SimWorld, _>(b);
            // arbitrary writes go to both
            let r = {
                let sh2 = Rc::clone(&sh);
                let done: Rc<RefCell<Option<writer::Tee<Rec, Rec>>>> = Rc::new(RefCell::new(None));
                let d2 = Rc::clone(&done);
                let cli = comp();
                let n_items = items.len();
                let mut wr_rng = Rng::new(hseed ^ 0xEE);
                let root = Box::pin(async move {
                    for (i, it) in items.into_iter().enumerate() {
                        sh2.call.set(i);
                        sh2.core.progress();
                        w.handle_event(it, &cli).await;
                        if wr_rng.chance(1, 4) || i + 1 == n_items {
                            let text = if i % 5 == 4 { String::new() } else { format!("write-{i}") };
                            Arbitrary::<SimWorld, String>::write(&mut w, text).await;
                        }
                    }
                    *d2.borrow_mut() = Some(w);
                });
                let o = core::run_root(&core, root, &mut |_| {});
                if let Some(w) = done.borrow().as_ref() {
                    stats_of!(w, "");
                }
                (o.end, o.panic_payload.as_deref().map(|_| "panic".to_owned()))
            };
            for i in 0..6 {
                numbers.insert(format!("left{i}"), sa[i] as i64);
                numbers.insert(format!("right{i}"), sb[i] as i64);
            }
            finish!(r, [("left", la), ("right", lb)]);
        }
        "or" => {
            let (a, la) = Rec::new(&sh, rand_stats());
            let (b, lb) = Rec::new(&sh, rand_stats());
            let (sa, sb) = (a.stats, b.stats);
            // a STATEFUL predicate (`Or` takes an `FnMut`): it must be asked exactly once per event
            let mut asked = 0u64;
            let w = writer::Or::new(a, b, move |ev: &parser::Result<Event<Cucumber<SimWorld>>>, c: &cli::Compose<cli::Empty, cli::Empty>| {
                asked += 1;
                or_pred(ev, c) ^ (asked % 3 == 0)
            });
            let r = drive(&core, &sh, w, comp(), items, &mut |w| stats_of!(w, ""));
            for i in 0..6 {
                numbers.insert(format!("left{i}"), sa[i] as i64);
                numbers.insert(format!("right{i}"), sb[i] as i64);
            }
            finish!(r, [("left", la), ("right", lb)]);
        }
        "fos_repeat_failed" => {
            // events are transformed first, then repeated: Repeat<Rec> inside FailOnSkipped
            let (a, la) = Rec::new(&sh, [0; 6]);
            let w = a.repeat_failed().fail_on_skipped();
            let r = drive(&core, &sh, w, e, items, &mut |_| {});
            finish!(r, [("out", la)]);
        }
        "repeat_failed_tee" => {
            let (a, la) = Rec::new(&sh, [0; 6]);
            let (b, lb) = Rec::new(&sh, [0; 6]);
            let w = a.tee::<SimWorld, _>(b).repeat_failed();
            let r = drive(&core, &sh, w, comp(), items, &mut |_| {});
            finish!(r, [("left", la), ("right", lb)]);
        }
        "tee_of_fos" => {
            let (a, la) = Rec::new(&sh, [0; 6]);
            let (b, lb) = Rec::new(&sh, [0; 6]);
            let w = a.fail_on_skipped().tee::<SimWorld, _>(b);
            let r = drive(&core, &sh, w, comp(), items, &mut |_| {});
            finish!(r, [("left", la), ("right", lb)]);
        }
        "or_of_repeat" => {
            let (a, la) = Rec::new(&sh, [0; 6]);
            let (b, lb) = Rec::new(&sh, [0; 6]);
            let w = writer::Or::new(a.repeat_skipped(), b.repeat_failed(), or_pred);
            let r = drive(&core, &sh, w, comp(), items, &mut |_| {});
            finish!(r, [("left", la), ("right", lb)]);
        }
        "summarize" | "repeat_failed_summarize" | "repeat_skipped_summarize" | "summarize_normalize" | "fos_summarize" | "repeat_all_summarize" => {
            let (a, la) = Rec::new(&sh, [0; 6]);
            let mut grab = |w: &writer::Summarize<Rec>, numbers: &mut BTreeMap<String, i64>| {
                let (sc, st) = (*w.scenarios_stats(), *w.steps_stats());
                for (k, v) in [
                    ("sc_passed", sc.passed),
                    ("sc_skipped", sc.skipped),
                    ("sc_failed", sc.failed),
                    ("sc_retried", sc.retried),
                    ("st_passed", st.passed),
                    ("st_skipped", st.skipped),
                    ("st_failed", st.failed),
                    ("st_retried", st.retried),
                ] {
                    numbers.insert(k.to_owned(), v as i64);
                }
            };
            match which {
                "summarize" => {
                    let w = a.summarized();
                    let r = drive(&core, &sh, w, e, items, &mut |w| {
                        stats_of!(w, "");
                        grab(w, &mut numbers);
                    });
                    finish!(r, [("out", la)]);
                }
                "repeat_failed_summarize" => {
                    let w = a.summarized().repeat_failed();
                    let r = drive(&core, &sh, w, e, items, &mut |w| {
                        stats_of!(w, "");
                        grab(w, &mut numbers);
                    });
                    finish!(r, [("out", la)]);
                }
                "fos_summarize" => {
                    let w = a.summarized().fail_on_skipped();
                    let r = drive(&core, &sh, w, e, items, &mut |w| {
                        stats_of!(w, "");
                        grab(w, &mut numbers);
                    });
                    finish!(r, [("out", la)]);
                }
                "repeat_all_summarize" => {
                    // Repeat outside Summarize with a filter selecting everything: run-Finished itself is
                    // replayed into Summarize (which must neither count nor write its summary again)
                    let w = a.summarized().repeat_if(|_: &parser::Result<Event<Cucumber<SimWorld>>>| true);
                    let r = drive(&core, &sh, w, e, items, &mut |w| {
                        stats_of!(w, "");
                        grab(w, &mut numbers);
                    });
                    finish!(r, [("out", la)]);
                }
                "repeat_skipped_summarize" => {
                    let w = a.summarized().repeat_skipped();
                    let r = drive(&core, &sh, w, e, items, &mut |w| {
                        stats_of!(w, "");
                        grab(w, &mut numbers);
                    });
                    finish!(r, [("out", la)]);
                }
                _ => {
                    // the shipped default shape: Summarize outside Normalize (sees the raw order)
                    let w = writer::Normalize::new(a).summarized();
                    let r = drive(&core, &sh, w, e, items, &mut |w| {
                        stats_of!(w, "");
                        let (sc, st) = (*w.scenarios_stats(), *w.steps_stats());
                        for (k, v) in [
                            ("sc_passed", sc.passed),
                            ("sc_skipped", sc.skipped),
                            ("sc_failed", sc.failed),
                            ("sc_retried", sc.retried),
                            ("st_passed", st.passed),
                            ("st_skipped", st.skipped),
                            ("st_failed", st.failed),
                            ("st_retried", st.retried),
                        ] {
                            numbers.insert(k.to_owned(), v as i64);
                        }
                    });
                    finish!(r, [("out", la)]);
                }
            }
        }
        other => return Err(format!("harness: unknown writer stack {other:?}")),
    }
    ch.numbers = numbers;
    ch.stats = core.stats.borrow().clone();
    ch.sched_digest = core.sched_digest.get();
    ch.slow_pendings = sh.slow_pendings.get();
    core::uninstall_hooks();
    Ok(ch)
}

// ---------------------------------------------------------------------------------------------
// Oracles

fn v(prop: &str, code: &str, msg: String) -> Violation {
    Violation::new(prop, code, msg)
}

/// Identity of an event across input and output.
fn ident(e: &Ev) -> (u64, &'static str, String) {
    let extra = match &e.k {
        K::ParseError(s) => s.clone(),
        _ => String::new(),
    };
    (e.at, e.k.tag(), extra)
}

fn aborted(ch: &CHistory, prop: &str, out: &mut Vec<Violation>) -> bool {
    match ch.end {
        Some(RunEnd::Finished) => false,
        Some(RunEnd::Panicked) => {
            out.push(v(prop, "writer-panicked", format!("writer stack {} panicked on a contract-abiding stream: {:?}", ch.stack, ch.escaped_panic)));
            true
        }
        other => {
            out.push(v(prop, "writer-stuck", format!("driving the writer stack {} ended with {other:?}", ch.stack)));
            true
        }
    }
}

pub fn c11(ch: &CHistory, out: &mut Vec<Violation>) {
    if aborted(ch, "C11", out) {
        return;
    }
    let input = &ch.input;
    let output = &ch.outputs["out"];
    // ---- multiset / permutation
    let mut in_ids: Vec<_> = input.iter().map(ident).collect();
    let mut out_ids: Vec<_> = output.iter().map(|(_, e)| ident(e)).collect();
    in_ids.sort();
    out_ids.sort();
    if in_ids != out_ids {
        let ins: BTreeSet<_> = in_ids.iter().collect();
        let outs: BTreeSet<_> = out_ids.iter().collect();
        let lost: Vec<_> = ins.difference(&outs).take(5).collect();
        let extra: Vec<_> = outs.difference(&ins).take(5).collect();
        let code = if out_ids.len() < in_ids.len() { "events-lost" } else if out_ids.len() > in_ids.len() { "events-duplicated" } else { "events-altered" };
        out.push(v("C11", code, format!("{} events in, {} out; lost {lost:?}; extra {extra:?}", in_ids.len(), out_ids.len())));
        return;
    }
    // events keep all their content
    let by_at: BTreeMap<u64, &Ev> = input.iter().filter(|e| e.at != 0).map(|e| (e.at, e)).collect();
    for (_, e) in output {
        if e.at != 0 && by_at.get(&e.at).is_some_and(|i| *i != e) {
            out.push(v("C11", "event-content-changed", format!("event {} was forwarded as {}", by_at[&e.at].short(), e.short())));
            return;
        }
    }
    // ---- per call: prefix extension is implicit (log only grows); immediacy and maximal progress
    // (not for histories of a real run through `Cucumber::filter_run`: the calls are made by the pipeline's
    // own loop there, the recorded outputs carry no call index; losslessness and final shape remain)
    let sequential_input = is_sequential(input);
    let mut out_pos = 0usize; // number of outputs produced up to and including call i
    for (i, inp) in input.iter().enumerate() {
        if ch.stack.starts_with("real_runner") {
            break;
        }
        while out_pos < output.len() && output[out_pos].0 <= i {
            out_pos += 1;
        }
        let produced_this_call: Vec<&Ev> = output.iter().filter(|(c, _)| *c == i).map(|(_, e)| e).collect();
        if matches!(inp.k, K::RunStarted | K::ParsingFinished { .. } | K::ParseError(_)) {
            if !produced_this_call.iter().any(|e| ident(e) == ident(inp)) {
                out.push(v("C11", "not-forwarded-at-once", format!("{} was not forwarded during its own handle_event call", inp.short())).attr("kind", inp.k.tag()));
                return;
            }
        }
        if sequential_input {
            if produced_this_call.len() != 1 || ident(produced_this_call[0]) != ident(inp) {
                out.push(v(
                    "C11",
                    "sequential-not-passthrough",
                    format!("already sequential input: call {i} ({}) produced {:?}", inp.short(), produced_this_call.iter().map(|e| e.short()).collect::<Vec<_>>()),
                ));
                return;
            }
        }
        if let Some(msg) = progress_violation(&input[..=i], &output[..out_pos]) {
            out.push(v("C11", "held-back", format!("after call {i} ({}): {msg}", inp.short())));
            return;
        }
    }
    // ---- final shape
    let seq: Vec<&Ev> = output.iter().map(|(_, e)| e).collect();
    if let Some(msg) = shape_violation(&seq) {
        out.push(v("C11", "not-sequential", msg));
    }
    // per-attempt order preserved
    let mut in_order: BTreeMap<_, Vec<u64>> = BTreeMap::new();
    for e in input {
        if let Some(k) = e.attempt_key() {
            in_order.entry(k).or_default().push(e.at);
        }
    }
    let mut out_order: BTreeMap<_, Vec<u64>> = BTreeMap::new();
    for e in &seq {
        if let Some(k) = e.attempt_key() {
            out_order.entry(k).or_default().push(e.at);
        }
    }
    if in_order != out_order {
        out.push(v("C11", "attempt-order-changed", "relative order of an attempt's events differs between input and output".to_string()));
    }
}

/// Is the stream already in normalized (sequential) order?
fn is_sequential(evs: &[Ev]) -> bool {
    let refs: Vec<&Ev> = evs.iter().collect();
    shape_violation(&refs).is_none()
}

/// Checks contiguity / nesting / Finished-last on a complete stream.
fn shape_violation(seq: &[&Ev]) -> Option<String> {
    let mut open_feature: Option<usize> = None;
    let mut open_rule: Option<usize> = None;
    let mut open_attempt: Option<(usize, usize, usize, Option<(usize, usize)>)> = None;
    let mut closed_features: BTreeSet<usize> = BTreeSet::new();
    let mut closed_rules: BTreeSet<(usize, usize)> = BTreeSet::new();
    let mut closed_attempts = BTreeSet::new();
    let n = seq.len();
    for (i, e) in seq.iter().enumerate() {
        match &e.k {
            K::RunStarted | K::ParsingFinished { .. } | K::ParseError(_) => {}
            K::RunFinished => {
                if i + 1 != n {
                    return Some(format!("run-Finished at {i} is not last of {n}"));
                }
                if open_feature.is_some() {
                    return Some("run-Finished while a feature is open".into());
                }
            }
            K::FeatureStarted => {
                if open_feature.is_some() {
                    return Some(format!("feature {:?} started at {i} while another feature is open", e.feature));
                }
                if closed_features.contains(&e.fptr) {
                    return Some(format!("feature {:?} started twice", e.feature));
                }
                open_feature = Some(e.fptr);
            }
            K::FeatureFinished => {
                if open_feature != Some(e.fptr) || open_rule.is_some() || open_attempt.is_some() {
                    return Some(format!("feature {:?} finished at {i} with open_feature={open_feature:?} open_rule={open_rule:?} open_attempt={open_attempt:?}", e.feature));
                }
                open_feature = None;
                closed_features.insert(e.fptr);
            }
            K::RuleStarted => {
                if open_feature != Some(e.fptr) || open_rule.is_some() || open_attempt.is_some() || closed_rules.contains(&(e.fptr, e.rptr)) {
                    return Some(format!("rule {:?} started at {i} in a bad position", e.rule));
                }
                open_rule = Some(e.rptr);
            }
            K::RuleFinished => {
                if open_rule != Some(e.rptr) || open_attempt.is_some() {
                    return Some(format!("rule {:?} finished at {i} in a bad position", e.rule));
                }
                open_rule = None;
                closed_rules.insert((e.fptr, e.rptr));
            }
            _ => {
                let key = e.attempt_key().unwrap();
                if open_feature != Some(e.fptr) || (e.rptr != 0 && open_rule != Some(e.rptr)) || (e.rptr == 0 && open_rule.is_some()) {
                    return Some(format!("scenario event {} at {i} outside its feature/rule bracket", e.short()));
                }
                match open_attempt {
                    None => {
                        if closed_attempts.contains(&key) {
                            return Some(format!("event {} at {i} after its attempt finished", e.short()));
                        }
                        if !matches!(e.k, K::ScStarted) {
                            return Some(format!("attempt opens with {} at {i}", e.short()));
                        }
                        open_attempt = Some(key);
                    }
                    Some(k) if k != key => return Some(format!("event {} at {i} interrupts attempt {k:?}", e.short())),
                    _ => {}
                }
                if matches!(e.k, K::ScFinished) {
                    open_attempt = None;
                    closed_attempts.insert(key);
                }
            }
        }
    }
    if open_feature.is_some() || open_attempt.is_some() || open_rule.is_some() {
        return Some("stream ends with an open bracket".into());
    }
    None
}

/// Maximal-progress invariant: nothing is held back except behind an open sibling.
fn progress_violation(input: &[Ev], output: &[(usize, Ev)]) -> Option<String> {
    let out_ids: BTreeSet<_> = output.iter().map(|(_, e)| ident(e)).collect();
    let buffered: Vec<&Ev> = input.iter().filter(|e| !out_ids.contains(&ident(e))).collect();
    if buffered.is_empty() {
        return None;
    }
    // open brackets of the output so far
    let mut open_feature: Option<usize> = None;
    let mut open_rule: Option<usize> = None;
    let mut open_attempt = None;
    for (_, e) in output {
        match &e.k {
            K::FeatureStarted => open_feature = Some(e.fptr),
            K::FeatureFinished => open_feature = None,
            K::RuleStarted => open_rule = Some(e.rptr),
            K::RuleFinished => open_rule = None,
            K::ScStarted => open_attempt = e.attempt_key(),
            K::ScFinished => open_attempt = None,
            _ => {}
        }
    }
    if let Some(a) = open_attempt {
        // innermost open entity is an attempt: none of its events may be buffered
        if let Some(b) = buffered.iter().find(|e| e.attempt_key() == Some(a)) {
            return Some(format!("attempt {a:?} is at the head of the output but its event {} is buffered", b.short()));
        }
        return None;
    }
    if let (Some(f), Some(r)) = (open_feature, open_rule) {
        // open rule without open attempt: no child event nor its own Finished may be buffered
        if let Some(b) = buffered.iter().find(|e| e.fptr == f && e.rptr == r) {
            return Some(format!("rule {:?} is open with no attempt in progress, yet {} is buffered", b.rule, b.short()));
        }
        return None;
    }
    if let Some(f) = open_feature {
        if let Some(b) = buffered.iter().find(|e| e.fptr == f) {
            return Some(format!("feature {:?} is open with no child in progress, yet {} is buffered", b.feature, b.short()));
        }
        return None;
    }
    // nothing open: nothing at all may be buffered
    Some(format!("no bracket is open, yet {} is buffered", buffered[0].short()))
}

// ---------------------------------------------------------------------------------------------
// C13

fn expected_fos(e: &Ev, plan: &Plan, custom: bool, st: &crate::model::Static) -> Ev {
    let mut x = e.clone();
    if let K::StepSkipped { bg } = e.k {
        let name = e.scenario.clone().unwrap_or_default();
        let fail = if custom {
            custom_fos_name(&name)
        } else {
            st.scenarios.get(&name).is_some_and(|s| !s.allow_skipped)
        };
        let _ = plan;
        if fail {
            x.k = K::StepFailed { bg, err: crate::record::ErrK::NotFound, payload: "Step doesn't match any function".into(), world: None, has_captures: false, has_loc: false };
        }
    }
    x
}

fn repeat_matches(which: &str, e: &Ev) -> bool {
    match which {
        "skipped" => matches!(e.k, K::StepSkipped { .. }),
        "failed" => matches!(e.k, K::StepFailed { .. } | K::HookFailed(..) | K::ParseError(_)),
        "if" => matches!(e.k, K::FeatureStarted | K::FeatureFinished),
        "all" => true,
        _ => false,
    }
}

fn expect_repeat(input: &[Ev], which: &str) -> Vec<Ev> {
    // pass-through, then right after run-Finished the matches so far, once, in order
    let mut out = Vec::new();
    let mut buf: Vec<Ev> = Vec::new();
    for e in input {
        if repeat_matches(which, e) {
            buf.push(e.clone());
        }
        out.push(e.clone());
        if matches!(e.k, K::RunFinished) {
            out.append(&mut buf);
        }
    }
    out
}

fn strip(out: &[(usize, Ev)]) -> Vec<Ev> {
    out.iter().map(|(_, e)| e.clone()).collect()
}

fn cmp_streams(prop: &str, code: &str, what: &str, got: &[Ev], want: &[Ev], out: &mut Vec<Violation>) {
    if got == want {
        return;
    }
    let pos = got.iter().zip(want.iter()).position(|(g, w)| g != w).unwrap_or(got.len().min(want.len()));
    out.push(
        v(
            prop,
            code,
            format!(
                "{what}: {} events received, {} expected; first difference at {pos}: got {:?}, expected {:?}",
                got.len(),
                want.len(),
                got.get(pos).map(Ev::short),
                want.get(pos).map(Ev::short)
            ),
        )
        .attr("stack", what),
    );
}

pub fn c13(plan: &Plan, ch: &CHistory, out: &mut Vec<Violation>) {
    if aborted(ch, "C13", out) {
        return;
    }
    let st = crate::model::Static::new(plan);
    let input = &ch.input;
    let fos = |custom: bool| -> Vec<Ev> { input.iter().map(|e| expected_fos(e, plan, custom, &st)).collect() };
    let or_left = |e: &Ev| -> bool { matches!(e.k, K::ParseError(_)) || e.at % 2 == 0 };
    match ch.stack.as_str() {
        "fos" => {
            cmp_streams("C13", "fail-on-skipped", "fos", &strip(&ch.outputs["out"]), &fos(false), out);
            // Stats are forwarded unchanged
            for (i, k) in ["passed", "skipped", "failed", "retried", "parsing_errors", "hook_errors"].iter().enumerate() {
                if ch.numbers.get(*k) != ch.numbers.get(&format!("inner{i}")) {
                    out.push(v("C13", "stats-not-forwarded", format!("FailOnSkipped reports {k}={:?}, inner writer {:?}", ch.numbers.get(*k), ch.numbers.get(&format!("inner{i}")))));
                }
            }
        }
        "fos_custom" => cmp_streams("C13", "fail-on-skipped", "fos_custom", &strip(&ch.outputs["out"]), &fos(true), out),
        "repeat_skipped" => cmp_streams("C13", "repeat", "repeat_skipped", &strip(&ch.outputs["out"]), &expect_repeat(input, "skipped"), out),
        "repeat_failed" => cmp_streams("C13", "repeat", "repeat_failed", &strip(&ch.outputs["out"]), &expect_repeat(input, "failed"), out),
        "repeat_if" => cmp_streams("C13", "repeat", "repeat_if", &strip(&ch.outputs["out"]), &expect_repeat(input, "if"), out),
        "repeat_all" => cmp_streams("C13", "repeat", "repeat_all", &strip(&ch.outputs["out"]), &expect_repeat(input, "all"), out),
        "tee" => {
            cmp_streams("C13", "tee", "tee-left", &strip(&ch.outputs["left"]), input, out);
            cmp_streams("C13", "tee", "tee-right", &strip(&ch.outputs["right"]), input, out);
            let hf = ch.numbers["failed"] > 0 || ch.numbers["parsing_errors"] > 0 || ch.numbers["hook_errors"] > 0;
            if (ch.numbers["has_failed"] != 0) != hf {
                out.push(v("C13", "tee-has-failed", format!("Tee::execution_has_failed() = {} disagrees with its getters", ch.numbers["has_failed"])));
            }
            if ch.writes["left"] != ch.writes["right"] || ch.writes["left"].is_empty() {
                out.push(v("C13", "tee-writes", format!("arbitrary writes differ: left {:?} right {:?}", ch.writes["left"], ch.writes["right"])));
            }
            for (i, k) in ["passed", "skipped", "failed", "retried", "parsing_errors", "hook_errors"].iter().enumerate() {
                let want = ch.numbers[&format!("left{i}")].max(ch.numbers[&format!("right{i}")]);
                if ch.numbers[*k] != want {
                    out.push(v("C13", "tee-stats", format!("Tee reports {k}={}, maximum of both sides is {want}", ch.numbers[*k])).attr("getter", k));
                }
            }
        }
        "or" => {
            // the predicate is stateful: the k-th question (1-based) is flipped when k % 3 == 0
            let to_left = |i: usize, e: &Ev| or_left(e) ^ ((i as u64 + 1) % 3 == 0);
            let l: Vec<Ev> = input.iter().enumerate().filter(|(i, e)| to_left(*i, e)).map(|(_, e)| e.clone()).collect();
            let r: Vec<Ev> = input.iter().enumerate().filter(|(i, e)| !to_left(*i, e)).map(|(_, e)| e.clone()).collect();
            cmp_streams("C13", "or", "or-left", &strip(&ch.outputs["left"]), &l, out);
            cmp_streams("C13", "or", "or-right", &strip(&ch.outputs["right"]), &r, out);
            let hf = ch.numbers["failed"] > 0 || ch.numbers["parsing_errors"] > 0 || ch.numbers["hook_errors"] > 0;
            if (ch.numbers["has_failed"] != 0) != hf {
                out.push(v("C13", "or-has-failed", format!("Or::execution_has_failed() = {} disagrees with its getters", ch.numbers["has_failed"])));
            }
            for (i, k) in ["passed", "skipped", "failed", "retried", "parsing_errors", "hook_errors"].iter().enumerate() {
                let want = ch.numbers[&format!("left{i}")] + ch.numbers[&format!("right{i}")];
                if ch.numbers[*k] != want {
                    out.push(v("C13", "or-stats", format!("Or reports {k}={}, sum of both sides is {want}", ch.numbers[*k])).attr("getter", k));
                }
            }
        }
        "fos_repeat_failed" => {
            let t = fos(false);
            cmp_streams("C13", "nesting", "fos_repeat_failed", &strip(&ch.outputs["out"]), &expect_repeat(&t, "failed"), out);
        }
        "repeat_failed_tee" => {
            let want = expect_repeat(input, "failed");
            cmp_streams("C13", "nesting", "repeat_failed_tee-left", &strip(&ch.outputs["left"]), &want, out);
            cmp_streams("C13", "nesting", "repeat_failed_tee-right", &strip(&ch.outputs["right"]), &want, out);
        }
        "tee_of_fos" => {
            cmp_streams("C13", "nesting", "tee_of_fos-left", &strip(&ch.outputs["left"]), &fos(false), out);
            cmp_streams("C13", "nesting", "tee_of_fos-right", &strip(&ch.outputs["right"]), input, out);
        }
        "or_of_repeat" => {
            let l: Vec<Ev> = input.iter().filter(|e| or_left(e)).cloned().collect();
            let r: Vec<Ev> = input.iter().filter(|e| !or_left(e)).cloned().collect();
            cmp_streams("C13", "nesting", "or_of_repeat-left", &strip(&ch.outputs["left"]), &expect_repeat(&l, "skipped"), out);
            cmp_streams("C13", "nesting", "or_of_repeat-right", &strip(&ch.outputs["right"]), &expect_repeat(&r, "failed"), out);
        }
        other => out.push(v("C13", "harness", format!("no oracle for stack {other}"))),
    }
}

// ---------------------------------------------------------------------------------------------
// C12

#[derive(Debug, Default, PartialEq, Eq, Clone)]
pub struct Counts {
    pub st_passed: i64,
    pub st_skipped: i64,
    pub st_failed: i64,
    pub st_retried: i64,
    pub parsing_errors: i64,
    pub hook_errors: i64,
    pub features: i64,
    pub rules: i64,
    pub sc_passed: i64,
    pub sc_skipped: i64,
    pub sc_failed: i64,
    pub sc_retried: i64,
}

/// Independent fold over the stream, following the property text literally.
pub fn fold_counts(stream: &[Ev]) -> Counts {
    let mut c = Counts::default();
    // only up to and including run-Finished
    let upto = stream.iter().position(|e| matches!(e.k, K::RunFinished)).map_or(stream.len(), |p| p + 1);
    let s = &stream[..upto];
    let mut last_attempt: BTreeMap<(usize, usize, usize), Vec<&Ev>> = BTreeMap::new();
    let mut retried_scenarios: BTreeSet<(usize, usize, usize)> = BTreeSet::new();
    let mut cur: BTreeMap<(usize, usize, usize), Vec<&Ev>> = BTreeMap::new();
    for e in s {
        match &e.k {
            K::ParseError(_) => c.parsing_errors += 1,
            K::FeatureStarted => c.features += 1,
            K::RuleStarted => c.rules += 1,
            K::StepPassed { .. } => c.st_passed += 1,
            K::StepSkipped { .. } => c.st_skipped += 1,
            K::StepFailed { err, .. } => {
                let left = e.retries.map_or(0, |r| r.1);
                if left == 0 || matches!(err, crate::record::ErrK::NotFound) {
                    c.st_failed += 1;
                } else {
                    c.st_retried += 1;
                    retried_scenarios.insert(e.scenario_key().unwrap());
                }
            }
            K::HookFailed(..) => c.hook_errors += 1,
            _ => {}
        }
        if let Some(k) = e.scenario_key() {
            let v = cur.entry(k).or_default();
            if matches!(e.k, K::ScStarted) {
                v.clear();
            }
            v.push(e);
            if matches!(e.k, K::ScFinished) {
                last_attempt.insert(k, v.clone());
            }
        }
    }
    c.sc_retried = retried_scenarios.len() as i64;
    for evs in last_attempt.values() {
        let failed = evs.iter().any(|e| matches!(e.k, K::StepFailed { .. } | K::HookFailed(..)));
        let skipped = evs.iter().any(|e| matches!(e.k, K::StepSkipped { .. }));
        // only the last *completed* attempt that is final counts (an attempt that will be retried is not the last)
        let will_retry = failed && evs.first().and_then(|e| e.retries).is_some_and(|r| r.1 > 0)
            && !evs.iter().any(|e| matches!(&e.k, K::StepFailed { err: crate::record::ErrK::NotFound, .. }));
        if will_retry {
            continue;
        }
        if failed {
            c.sc_failed += 1;
        } else if skipped {
            c.sc_skipped += 1;
        } else {
            c.sc_passed += 1;
        }
    }
    c
}

/// Deviation of the known finding "hook failed in an attempt with retries left":
/// (extra failed scenarios, extra retried scenarios). Such an attempt (failed hook, no failed
/// step, retries left) is counted as a failed scenario, and - because that overwrites the
/// per-scenario "was retried" memory - a later retried step failure of the same scenario is
/// counted as another retried scenario.
pub fn known_hook_deviation(stream: &[Ev]) -> (i64, i64) {
    let upto = stream.iter().position(|e| matches!(e.k, K::RunFinished)).map_or(stream.len(), |p| p + 1);
    // attempts per scenario in stream order
    let mut order: Vec<(usize, usize, usize)> = Vec::new();
    let mut per: BTreeMap<(usize, usize, usize), Vec<(Option<(usize, usize)>, bool, bool, bool)>> = BTreeMap::new();
    for e in &stream[..upto] {
        let Some(sk) = e.scenario_key() else { continue };
        let v = per.entry(sk).or_insert_with(|| {
            order.push(sk);
            Vec::new()
        });
        if matches!(e.k, K::ScStarted) || v.is_empty() {
            v.push((e.retries, false, false, false));
        }
        let cur = v.last_mut().unwrap();
        match &e.k {
            K::HookFailed(..) => cur.1 = true,
            K::StepFailed { err, .. } => {
                let left = e.retries.map_or(0, |r| r.1);
                if left > 0 && !matches!(err, crate::record::ErrK::NotFound) {
                    cur.2 = true;
                } else {
                    cur.3 = true;
                }
            }
            _ => {}
        }
    }
    let (mut d_failed, mut d_retried) = (0i64, 0i64);
    for sk in order {
        let mut memory = false;
        let mut counted = 0i64;
        let mut any = false;
        for (ret, hook, step_retried, step_final) in &per[&sk] {
            let left = ret.map_or(0, |r| r.1);
            if *step_retried {
                any = true;
                if !memory {
                    counted += 1;
                }
                memory = true;
            }
            let _ = step_final; // with retries left a final step failure can only be NotFound (fail_on_skipped)
            if *hook && !*step_retried && left > 0 {
                d_failed += 1;
                memory = false;
            }
        }
        d_retried += counted - i64::from(any);
    }
    (d_failed, d_retried)
}

pub fn parse_summary(text: &str) -> Option<BTreeMap<String, i64>> {
    // [Summary]\nN features\n[M rules\n]K scenarios (a passed, b skipped, c failed with d retries)\nS steps (...)\n[e parsing errors][, ][h hook errors]
    let mut m = BTreeMap::new();
    let mut lines = text.lines();
    if lines.next()?.trim() != "[Summary]" {
        return None;
    }
    let num = |s: &str| -> Option<i64> { s.split_whitespace().next()?.parse().ok() };
    let stats = |m: &mut BTreeMap<String, i64>, prefix: &str, line: &str| {
        for key in ["passed", "skipped", "failed"] {
            m.insert(format!("{prefix}_{key}"), 0);
        }
        m.insert(format!("{prefix}_retried"), 0);
        if let Some(i) = line.find('(') {
            let inner = line[i + 1..].trim_end_matches(')');
            let (main, retr) = match inner.split_once(" with ") {
                Some((a, b)) => (a, Some(b)),
                None => (inner, None),
            };
            for part in main.split(", ") {
                let mut it = part.split_whitespace();
                if let (Some(n), Some(k)) = (it.next(), it.next()) {
                    if let Ok(n) = n.parse::<i64>() {
                        m.insert(format!("{prefix}_{k}"), n);
                    }
                }
            }
            if let Some(r) = retr {
                if let Some(n) = r.split_whitespace().next().and_then(|n| n.parse::<i64>().ok()) {
                    m.insert(format!("{prefix}_retried"), n);
                }
            }
        }
    };
    m.insert("rules".into(), 0);
    m.insert("parsing_errors".into(), 0);
    m.insert("hook_errors".into(), 0);
    for line in lines {
        let l = line.trim();
        if l.contains(" feature") && !l.contains("scenario") {
            m.insert("features".into(), num(l)?);
        } else if l.contains(" rule") && !l.contains('(') {
            m.insert("rules".into(), num(l)?);
        } else if l.contains(" scenario") {
            m.insert("sc_total".into(), num(l)?);
            stats(&mut m, "sc", l);
        } else if l.contains(" step") {
            m.insert("st_total".into(), num(l)?);
            stats(&mut m, "st", l);
        } else {
            for part in l.split(", ") {
                if part.contains("parsing error") {
                    m.insert("parsing_errors".into(), num(part)?);
                } else if part.contains("hook error") {
                    m.insert("hook_errors".into(), num(part)?);
                }
            }
        }
    }
    Some(m)
}

pub fn c12(ch: &CHistory, out: &mut Vec<Violation>) {
    if aborted(ch, "C12", out) {
        return;
    }
    let received = strip(&ch.outputs["out"]);
    let want = fold_counts(&received);
    let n = &ch.numbers;
    let got = Counts {
        st_passed: n["passed"],
        st_skipped: n["skipped"],
        st_failed: n["failed"],
        st_retried: n["retried"],
        parsing_errors: n["parsing_errors"],
        hook_errors: n["hook_errors"],
        features: want.features, // no getter: checked through the summary text below
        rules: want.rules,
        sc_passed: n["sc_passed"],
        sc_skipped: n["sc_skipped"],
        sc_failed: n["sc_failed"],
        sc_retried: n["sc_retried"],
    };
    // steps_stats() must agree with the Stats getters
    for (a, b) in [("passed", "st_passed"), ("skipped", "st_skipped"), ("failed", "st_failed"), ("retried", "st_retried")] {
        if n[a] != n[b] {
            out.push(v("C12", "getters-disagree", format!("Stats::{a}_steps() = {}, steps_stats().{a} = {}", n[a], n[b])));
        }
    }
    // Known finding (known_findings.json, C12 hook-failed-in-retried-attempt): a Hook::Failed in an
    // attempt that is going to be retried and has no failed step makes Summarize count the
    // scenario as failed although only its last attempt may decide. Exactly that deviation -
    // nothing else - is reported under its own code, so any other difference is still a violation.
    let mut want_known = want.clone();
    let (d_failed, d_retried) = known_hook_deviation(&received);
    want_known.sc_failed += d_failed;
    want_known.sc_retried += d_retried;
    if got != want && d_failed > 0 && got == want_known {
        out.push(
            v("C12", "counters-differ-hook-failed-in-retried-attempt", format!(
                "scenarios.failed = {} but only {} scenario(s) failed in their last attempt: {} attempt(s) with retries left had a failed hook (and no failed step) and were counted as failed scenarios",
                got.sc_failed, want.sc_failed, want_known.sc_failed - want.sc_failed)),
        );
    } else if got != want {
        let mut diffs = Vec::new();
        macro_rules! d {
            ($f:ident) => {
                if got.$f != want.$f {
                    diffs.push(format!("{}: summary {} vs stream {}", stringify!($f), got.$f, want.$f));
                }
            };
        }
        d!(st_passed);
        d!(st_skipped);
        d!(st_failed);
        d!(st_retried);
        d!(parsing_errors);
        d!(hook_errors);
        d!(sc_passed);
        d!(sc_skipped);
        d!(sc_failed);
        d!(sc_retried);
        let which = diffs.first().map(|s| s.split(':').next().unwrap_or("").to_owned()).unwrap_or_default();
        out.push(v("C12", "counters-differ", format!("summary counters differ from the event stream: {}", diffs.join("; "))).attr("first", which));
    }
    let has_failed_want = want.st_failed > 0 || want.parsing_errors > 0 || want.hook_errors > 0;
    if (n["has_failed"] != 0) != has_failed_want {
        out.push(v("C12", "has-failed-flag", format!("execution_has_failed() = {}, counters imply {has_failed_want}", n["has_failed"])));
    }
    // the summary is written exactly once, right after run-Finished
    let writes = &ch.writes["out"];
    let fin_pos = received.iter().position(|e| matches!(e.k, K::RunFinished));
    match (writes.as_slice(), fin_pos) {
        ([(pos, text)], Some(fp)) => {
            if *pos != fp + 1 {
                out.push(v("C12", "summary-position", format!("summary written after {pos} events, run-Finished is event #{fp}")));
            }
            match parse_summary(text) {
                None => out.push(v("C12", "summary-unparsable", format!("cannot parse summary text {text:?}"))),
                Some(m) => {
                    let mut exp: BTreeMap<&str, i64> = BTreeMap::new();
                    exp.insert("features", want.features);
                    exp.insert("rules", want.rules);
                    exp.insert("sc_passed", got.sc_passed);
                    exp.insert("sc_skipped", got.sc_skipped);
                    exp.insert("sc_failed", got.sc_failed);
                    exp.insert("sc_retried", got.sc_retried);
                    exp.insert("st_passed", got.st_passed);
                    exp.insert("st_skipped", got.st_skipped);
                    exp.insert("st_failed", got.st_failed);
                    exp.insert("st_retried", got.st_retried);
                    exp.insert("parsing_errors", got.parsing_errors);
                    exp.insert("hook_errors", got.hook_errors);
                    exp.insert("sc_total", got.sc_passed + got.sc_skipped + got.sc_failed);
                    exp.insert("st_total", got.st_passed + got.st_skipped + got.st_failed);
                    for (k, want_v) in exp {
                        if m.get(k).copied().unwrap_or(-1) != want_v {
                            out.push(v("C12", "summary-text", format!("summary text says {k}={:?}, counters say {want_v}\n{text}", m.get(k))).attr("field", k));
                            break;
                        }
                    }
                }
            }
        }
        (w, fp) => out.push(v("C12", "summary-count", format!("{} summary writes (run-Finished at {fp:?})", w.len())).attr("n", w.len().min(2))),
    }
}
