//! C14: the four built-in reporters (each behind `Normalize`, writing into the faulty sink),
//! driven by synthetic histories, and their output parsed back into facts that must equal the
//! facts of the event stream.

use std::{collections::BTreeMap, rc::Rc};

use cucumber::{Writer, cli, writer};
use serde::{Deserialize, Serialize};

use crate::{
    core::{self, Rng, RunEnd, SchedStats, SimCore},
    history::{self, HistoryShape},
    model::Violation,
    plan::Plan,
    record::{ErrK, Ev, Hk, K, Recorder, token_of},
    runb::{Sink, SinkStats},
    world::SimWorld,
};

pub const REPORTERS: &[&str] = &["basic", "libtest", "json", "junit"];

#[derive(Clone, Debug, Default, Serialize, Deserialize)]
pub struct RHistory {
    pub reporter: String,
    pub input: Vec<Ev>,
    pub output: String,
    pub end: Option<RunEnd>,
    pub escaped_panic: Option<String>,
    pub shape: HistoryShape,
    pub short_writes: u64,
    pub interrupts: u64,
    pub stats: SchedStats,
    pub sched_digest: u64,
    pub verbosity: u8,
    pub show_output: bool,
    pub report_time: bool,
    /// `basic` only: what the same stream produced with `Coloring::Always` (cursor movements,
    /// line clears and SGR sequences included), for the terminal-screen differential.
    #[serde(default)]
    pub term_output: Option<String>,
}

impl RHistory {
    pub fn digest(&self) -> u64 {
        let mut h = core::FNV_INIT;
        for e in &self.input {
            core::fnv(&mut h, e.k.tag().as_bytes());
            core::fnv(&mut h, &e.at.to_le_bytes());
        }
        // junit-report stamps the "Errors" suites with the real clock (inside the dependency, no seam):
        // mask every timestamp attribute so that digests stay a function of the seed
        let mut rest = self.output.as_str();
        while let Some(i) = rest.find("timestamp=\"") {
            core::fnv(&mut h, rest[..i].as_bytes());
            let tail = &rest[i + 11..];
            rest = tail.find('"').map_or("", |j| &tail[j + 1..]);
        }
        core::fnv(&mut h, rest.as_bytes());
        if let Some(t) = &self.term_output {
            core::fnv(&mut h, t.as_bytes());
        }
        core::fnv(&mut h, &self.sched_digest.to_le_bytes());
        h
    }
}

fn drive<Wr: Writer<SimWorld>>(core: &Rc<SimCore>, mut writer: Wr, cli: Wr::Cli, items: Vec<history::Item>) -> (RunEnd, Option<String>) {
    let core2 = Rc::clone(core);
    let root = Box::pin(async move {
        for it in items {
            core2.progress();
            writer.handle_event(it, &cli).await;
        }
    });
    let o = core::run_root(core, root, &mut |_| {});
    let payload = o.panic_payload.as_deref().map(|p| {
        p.downcast_ref::<String>().cloned().or_else(|| p.downcast_ref::<&'static str>().map(|s| (*s).to_owned())).unwrap_or_else(|| "<non-string>".into())
    });
    (o.end, payload)
}

pub fn reporter_name(plan: &Plan) -> &'static str {
    REPORTERS[(plan.writer.stack as usize) % REPORTERS.len()]
}

/// The reporter as the writer of the whole pipeline, driven by a simulated run of `runner::Basic`.
fn run_reporter_real(plan: &Rc<Plan>) -> Result<RHistory, String> {
    let core = SimCore::new(plan.sched.clone());
    core::install_hooks(&core);
    let stats = Rc::new(SinkStats::default());
    let w = &plan.writer;
    let (sink, buf) = Sink::new(w.sink_seed ^ 0x51, w.short_write_pm, w.eintr_pm, &stats);
    let which = reporter_name(plan);
    let (raw, end, payload, st, dg) = match which {
        "basic" => {
            let wr = writer::Basic::new(sink, writer::Coloring::Never, w.verbosity);
            let r = crate::runb::run_filter_run(&core, plan, wr, writer::basic::Cli { verbose: 0, color: writer::Coloring::Never })?;
            (r.raw, r.end, r.panic_msg, r.stats, r.sched_digest)
        }
        "libtest" => {
            let wr = writer::Libtest::new(sink);
            let c = writer::libtest::Cli {
                format: Some(writer::libtest::Format::Json),
                show_output: w.show_output,
                report_time: w.report_time.then_some(writer::libtest::ReportTime::Plain),
                nightly: None,
            };
            let r = crate::runb::run_filter_run(&core, plan, wr, c)?;
            (r.raw, r.end, r.panic_msg, r.stats, r.sched_digest)
        }
        "json" => {
            let r = crate::runb::run_filter_run(&core, plan, writer::Json::new(sink), cli::Empty)?;
            (r.raw, r.end, r.panic_msg, r.stats, r.sched_digest)
        }
        "junit" => {
            let r = crate::runb::run_filter_run(&core, plan, writer::JUnit::new(sink, w.verbosity.min(1)), writer::junit::Cli { verbose: None })?;
            (r.raw, r.end, r.panic_msg, r.stats, r.sched_digest)
        }
        other => return Err(format!("harness: unknown reporter {other}")),
    };
    core::uninstall_hooks();
    let mut shape = HistoryShape::default();
    shape.events = raw.len();
    shape.attempts = raw.iter().filter(|e| matches!(e.k, K::ScStarted)).count();
    shape.failed_attempts = raw.iter().filter(|e| matches!(e.k, K::StepFailed { .. })).count();
    shape.skipped_attempts = raw.iter().filter(|e| matches!(e.k, K::StepSkipped { .. })).count();
    shape.hook_failures = raw.iter().filter(|e| matches!(e.k, K::HookFailed(..))).count();
    shape.parse_errors = raw.iter().filter(|e| matches!(e.k, K::ParseError(_))).count();
    let output = String::from_utf8_lossy(&buf.borrow()).into_owned();
    Ok(RHistory {
        reporter: format!("{which}"),
        input: raw,
        output,
        end: Some(end),
        escaped_panic: payload,
        shape,
        short_writes: stats.short_writes.get(),
        interrupts: stats.interrupts.get(),
        stats: st,
        sched_digest: dg,
        verbosity: w.verbosity,
        show_output: w.show_output,
        report_time: w.report_time,
        term_output: None,
    })
}

pub fn run_reporter(plan: &Rc<Plan>) -> Result<RHistory, String> {
    if plan.writer.real_runner {
        return run_reporter_real(plan);
    }
    let core = SimCore::new(plan.sched.clone());
    core::install_hooks(&core);
    crate::runa::install_counting_hook();
    let mut hrng = Rng::new(plan.writer.sink_seed);
    let hseed = hrng.next_u64();
    // (Libtest forwards Log events with `print!()` to the process's real stdout, which is the worker's
    // protocol channel and no seam: no logs for that reporter)
    let (items, shape) = history::generate_with_logs(plan, &core, hseed, reporter_name(plan) != "libtest")?;
    let mut rec = Recorder::new(&core);
    let input: Vec<Ev> = items.iter().map(|it| rec.record(it)).collect();
    let stats = Rc::new(SinkStats::default());
    let w = &plan.writer;
    let (sink, buf) = Sink::new(hseed ^ 0x51, w.short_write_pm, w.eintr_pm, &stats);
    let which = reporter_name(plan);
    let mut term_output = None;
    let (end, payload) = match which {
        "basic" => {
            // the same stream once more through a writer in terminal mode (step `Started` lines are
            // printed and later erased with cursor-up / clear-line sequences)
            let tstats = Rc::new(SinkStats::default());
            let (tsink, tbuf) = Sink::new(hseed ^ 0x52, 0, 0, &tstats);
            let twr = writer::Basic::new(tsink, writer::Coloring::Always, w.verbosity);
            let (tend, tpayload) = drive(&core, twr, writer::basic::Cli { verbose: 0, color: writer::Coloring::Always }, items.clone());
            let wr = writer::Basic::new(sink, writer::Coloring::Never, w.verbosity);
            let r = drive(&core, wr, writer::basic::Cli { verbose: 0, color: writer::Coloring::Never }, items);
            if tend == RunEnd::Finished && r.0 == RunEnd::Finished {
                term_output = Some(String::from_utf8_lossy(&tbuf.borrow()).into_owned());
                r
            } else if tend != RunEnd::Finished {
                (tend, tpayload)
            } else {
                r
            }
        }
        "libtest" => {
            let wr = writer::Libtest::new(sink);
            let c = writer::libtest::Cli {
                format: Some(writer::libtest::Format::Json),
                show_output: w.show_output,
                report_time: w.report_time.then_some(writer::libtest::ReportTime::Plain),
                nightly: None,
            };
            drive(&core, wr, c, items)
        }
        "json" => {
            let wr = writer::Json::new(sink);
            drive(&core, wr, cli::Empty, items)
        }
        "junit" => {
            let wr = writer::JUnit::new(sink, w.verbosity.min(1));
            drive(&core, wr, writer::junit::Cli { verbose: None }, items)
        }
        other => return Err(format!("harness: unknown reporter {other}")),
    };
    core::uninstall_hooks();
    let output = String::from_utf8_lossy(&buf.borrow()).into_owned();
    Ok(RHistory {
        reporter: which.to_owned(),
        input,
        output,
        end: Some(end),
        escaped_panic: payload,
        shape,
        short_writes: stats.short_writes.get(),
        interrupts: stats.interrupts.get(),
        stats: core.stats.borrow().clone(),
        sched_digest: core.sched_digest.get(),
        verbosity: w.verbosity,
        show_output: w.show_output,
        report_time: w.report_time,
        term_output,
    })
}

// ---------------------------------------------------------------------------------------------
// Facts

/// Token (or class) of a failure as far as a textual report can show it.
fn failure_token(err: &ErrK, payload: &str) -> String {
    match err {
        ErrK::NotFound => "notfound".into(),
        ErrK::Ambiguous(_) => "ambiguous".into(),
        ErrK::Panic => payload_token(payload),
    }
}

fn payload_token(payload: &str) -> String {
    if payload.starts_with("custom ") {
        // arbitrary payload types are rendered as "(Could not resolve panic payload)"
        "unresolved".into()
    } else {
        token_of(payload).unwrap_or_else(|| format!("?{payload}"))
    }
}

/// Token found in report text.
fn text_token(text: &str) -> String {
    if let Some(t) = token_of(text) {
        t
    } else if text.contains("Could not resolve panic payload") {
        "unresolved".into()
    } else if text.contains("ambiguous") {
        "ambiguous".into()
    } else if text.contains("doesn't match any function") {
        "notfound".into()
    } else {
        format!("?{}", text.chars().take(60).collect::<String>())
    }
}

fn perr_token(text: &str) -> String {
    let mut rest = text;
    while let Some(i) = rest.find("perr") {
        let d: String = rest[i + 4..].chars().take_while(char::is_ascii_digit).collect();
        if !d.is_empty() {
            return format!("perr{d}");
        }
        rest = &rest[i + 4..];
    }
    format!("?{}", text.chars().take(60).collect::<String>())
}

type Bag = BTreeMap<String, i64>;

fn add(bag: &mut Bag, k: String) {
    *bag.entry(k).or_insert(0) += 1;
}

fn diff(what: &str, got: &Bag, want: &Bag) -> Option<(String, String)> {
    if got == want {
        return None;
    }
    let mut missing = Vec::new();
    let mut extra = Vec::new();
    for (k, n) in want {
        let g = got.get(k).copied().unwrap_or(0);
        if g < *n {
            missing.push(format!("{k} (x{})", n - g));
        }
    }
    for (k, n) in got {
        let w = want.get(k).copied().unwrap_or(0);
        if *n > w {
            extra.push(format!("{k} (x{})", n - w));
        }
    }
    let code = if !missing.is_empty() && extra.is_empty() {
        "missing"
    } else if missing.is_empty() {
        "extra"
    } else {
        "differs"
    };
    Some((
        code.to_owned(),
        format!("{what}: facts in the report differ from the event stream.\n missing from the report: {:?}\n not in the event stream: {:?}", missing.iter().take(6).collect::<Vec<_>>(), extra.iter().take(6).collect::<Vec<_>>()),
    ))
}

fn attempt_no(e: &Ev) -> usize {
    e.retries.map_or(0, |r| r.0)
}

fn v(code: &str, msg: String) -> Violation {
    Violation::new("C14", code, msg)
}

pub fn c14(h: &RHistory, out: &mut Vec<Violation>) {
    match h.end {
        Some(RunEnd::Finished) => {}
        Some(RunEnd::Panicked) => {
            out.push(v("reporter-panicked", format!("{} reporter panicked on a contract-abiding stream: {:?}", h.reporter, h.escaped_panic)).attr("reporter", &h.reporter));
            return;
        }
        other => {
            out.push(v("reporter-stuck", format!("{} reporter: run ended with {other:?}", h.reporter)));
            return;
        }
    }
    match h.reporter.as_str() {
        "libtest" => c14_libtest(h, out),
        "json" => c14_json(h, out),
        "junit" => c14_junit(h, out),
        "basic" => c14_basic(h, out),
        _ => {}
    }
}

// ---------------------------------------------------------------------------------------------
// libtest JSON lines

fn c14_libtest(h: &RHistory, out: &mut Vec<Violation>) {
    let rep = "libtest";
    let mut lines: Vec<serde_json::Value> = Vec::new();
    for (i, l) in h.output.lines().enumerate() {
        match serde_json::from_str::<serde_json::Value>(l) {
            Ok(val) => lines.push(val),
            Err(e) => {
                out.push(v("malformed", format!("libtest line {i} is not JSON ({e}): {l}")).attr("reporter", rep));
                return;
            }
        }
    }
    let s = |v: &serde_json::Value, k: &str| v.get(k).and_then(|x| x.as_str()).unwrap_or("").to_owned();
    // expected facts
    let mut want = Bag::new();
    let mut retried_failures = 0i64;
    for e in &h.input {
        let sc = format!("{}|{}|{}|{}|{}", e.feature.clone().unwrap_or_default(), e.rule.clone().unwrap_or_default(), e.sc_line, e.sc_name.clone().unwrap_or_default(), attempt_no(e));
        match &e.k {
            K::StepPassed { bg } | K::StepSkipped { bg } => {
                let st = e.step.as_ref().unwrap();
                let status = if matches!(e.k, K::StepPassed { .. }) { "ok" } else { "ignored" };
                add(&mut want, format!("step|{sc}|{bg}|{status}|{}|{}{}|", st.line, st.kw, st.text));
            }
            K::StepFailed { bg, err, payload, .. } => {
                let st = e.step.as_ref().unwrap();
                if e.retries.is_some_and(|r| r.1 > 0) && !matches!(err, ErrK::NotFound) {
                    retried_failures += 1;
                }
                add(&mut want, format!("step|{sc}|{bg}|failed|{}|{}{}|{}", st.line, st.kw, st.text, failure_token(err, payload)));
            }
            K::HookFailed(hk, payload, _) => add(&mut want, format!("hook|{sc}|{hk:?}|{}", payload_token(payload))),
            K::ParseError(t) => add(&mut want, format!("perr|{}", perr_token(t))),
            _ => {}
        }
    }
    // parse
    let mut got = Bag::new();
    let mut open: BTreeMap<String, i64> = BTreeMap::new();
    let (mut n_ok, mut n_failed, mut n_ignored) = (0i64, 0i64, 0i64);
    let mut suite_started = 0;
    let mut suite_end: Option<serde_json::Value> = None;
    for (i, l) in lines.iter().enumerate() {
        let ty = s(l, "type");
        let evn = s(l, "event");
        if ty == "suite" {
            if evn == "started" {
                suite_started += 1;
                if i != 0 {
                    out.push(v("suite-started-not-first", format!("suite started line at position {i}")).attr("reporter", rep));
                }
            } else {
                if suite_end.is_some() || i + 1 != lines.len() {
                    out.push(v("suite-end-position", format!("suite result line at position {i} of {}", lines.len())).attr("reporter", rep));
                }
                suite_end = Some(l.clone());
            }
            continue;
        }
        let name = s(l, "name");
        if evn == "started" {
            *open.entry(name).or_insert(0) += 1;
            continue;
        }
        // result line: must close exactly one started line with the same name
        match open.get_mut(&name) {
            Some(n) if *n > 0 => *n -= 1,
            _ => {
                let near: Vec<&String> = open.iter().filter(|(_, n)| **n > 0).map(|(k, _)| k).take(3).collect();
                out.push(
                    v("result-without-started", format!("libtest result line {name:?} ({evn}) has no started line with the same name; open started lines: {near:?}"))
                        .attr("reporter", rep)
                        .attr("path", if name.contains(".feature") { "with-path" } else { "path-less" }),
                );
                return;
            }
        }
        match evn.as_str() {
            "ok" => n_ok += 1,
            "failed" => n_failed += 1,
            "ignored" => n_ignored += 1,
            _ => {}
        }
        let stdout = s(l, "stdout");
        // name -> components
        if let Some(rest) = name.strip_prefix("Feature: Parsing ") {
            let _ = rest;
            add(&mut got, format!("perr|{}", perr_token(&stdout)));
            continue;
        }
        let parts: Vec<&str> = name.split("::").collect();
        if parts.len() < 3 {
            out.push(v("unparsable-name", format!("libtest test name {name:?}")).attr("reporter", rep));
            return;
        }
        let fpart = parts[0].strip_prefix("Feature: ").unwrap_or(parts[0]);
        let fname = fpart.rsplit_once(' ').map_or(fpart, |x| x.0);
        let (rule, scp, stp) = if parts.len() >= 4 {
            let r = parts[1].split_once(": ").map_or(parts[1], |x| x.1);
            let r = r.split_once(": ").map_or(r, |x| x.1);
            (r.to_owned(), parts[2], parts[3..].join("::"))
        } else {
            (String::new(), parts[1], parts[2..].join("::"))
        };
        let (scline, screst) = scp.split_once(": ").unwrap_or(("0", scp));
        let screst = screst.split_once(": ").map_or(screst, |x| x.1); // drop keyword
        let (scname, attempt) = match screst.rsplit_once(" | Retry attempt ") {
            Some((n, r)) => (n, r.split('/').next().and_then(|x| x.parse::<usize>().ok()).unwrap_or(0)),
            None => (screst, 0),
        };
        let sc = format!("{fname}|{rule}|{scline}|{scname}|{attempt}");
        if let Some(hook) = stp.strip_suffix(" hook") {
            add(&mut got, format!("hook|{sc}|{hook}|{}", text_token(&stdout)));
            continue;
        }
        let (stline, strest) = stp.split_once(": ").unwrap_or(("0", &stp));
        let (bg, kwvalue) = match strest.strip_prefix(' ') {
            Some(x) => (false, x),
            None => (true, strest.split_once(' ').map_or(strest, |x| x.1)),
        };
        let tok = if evn == "failed" { text_token(&stdout) } else { String::new() };
        add(&mut got, format!("step|{sc}|{bg}|{evn}|{stline}|{kwvalue}|{tok}"));
    }
    if let Some((name, _)) = open.iter().find(|(_, n)| **n > 0) {
        out.push(
            v("started-without-result", format!("libtest started line {name:?} has no result line with the same name"))
                .attr("reporter", rep)
                .attr("path", if name.contains(".feature") { "with-path" } else { "path-less" }),
        );
        return;
    }
    if suite_started != 1 || suite_end.is_none() {
        out.push(v("suite-lines", format!("{suite_started} suite started lines, suite end present: {}", suite_end.is_some())).attr("reporter", rep));
        return;
    }
    if let Some((code, msg)) = diff("libtest", &got, &want) {
        out.push(v(&format!("facts-{code}"), msg).attr("reporter", rep));
    }
    // totals and verdict agree with the individual entries
    let se = suite_end.unwrap();
    let num = |k: &str| se.get(k).and_then(serde_json::Value::as_i64).unwrap_or(-1);
    let want_failed = n_failed - retried_failures;
    if num("passed") != n_ok || num("ignored") != n_ignored || num("failed") != want_failed {
        out.push(
            v("suite-totals", format!("suite line {se} but the entries are ok={n_ok} ignored={n_ignored} failed={n_failed} (of which {retried_failures} are step failures of attempts that are retried)"))
                .attr("reporter", rep),
        );
    }
    let verdict_failed = s(&se, "event") == "failed";
    if verdict_failed != (want_failed > 0) {
        out.push(v("suite-verdict", format!("suite verdict {:?} with {want_failed} final failures", s(&se, "event"))).attr("reporter", rep));
    }
}

// ---------------------------------------------------------------------------------------------
// Cucumber JSON

fn c14_json(h: &RHistory, out: &mut Vec<Violation>) {
    let rep = "json";
    let doc: serde_json::Value = match serde_json::from_str(&h.output) {
        Ok(d) => d,
        Err(e) => {
            out.push(v("malformed", format!("Cucumber JSON document does not parse: {e}; first bytes {:?}", h.output.chars().take(120).collect::<String>())).attr("reporter", rep));
            return;
        }
    };
    let Some(features) = doc.as_array() else {
        out.push(v("malformed", "Cucumber JSON document is not an array".to_string()).attr("reporter", rep));
        return;
    };
    let mut want = Bag::new();
    for e in &h.input {
        let el = format!(
            "{}|{}|{}{}|{}",
            e.fpath.as_deref().map(|p| p.trim_start_matches('/')).unwrap_or_default(),
            e.feature.clone().unwrap_or_default(),
            e.rule.as_ref().map(|r| format!("{r} ")).unwrap_or_default(),
            e.sc_name.clone().unwrap_or_default(),
            e.sc_line
        );
        match &e.k {
            K::StepPassed { bg } | K::StepSkipped { bg } => {
                let st = e.step.as_ref().unwrap();
                let status = if matches!(e.k, K::StepPassed { .. }) { "passed" } else { "skipped" };
                add(&mut want, format!("step|{el}|{}|{status}|{}|{}{}|", if *bg { "background" } else { "scenario" }, st.line, st.kw, st.text));
            }
            K::StepFailed { bg, err, payload, .. } => {
                let st = e.step.as_ref().unwrap();
                let status = match err {
                    ErrK::NotFound => "undefined",
                    ErrK::Ambiguous(_) => "ambiguous",
                    ErrK::Panic => "failed",
                };
                add(&mut want, format!("step|{el}|{}|{status}|{}|{}{}|{}", if *bg { "background" } else { "scenario" }, st.line, st.kw, st.text, failure_token(err, payload)));
            }
            K::HookFailed(hk, payload, _) => add(&mut want, format!("hook|{el}|{hk:?}|{}", payload_token(payload))),
            K::ParseError(t) => add(&mut want, format!("perr|{}", perr_token(t))),
            _ => {}
        }
    }
    // logs (tracing build): each is embedded, exactly once, in the next step / hook result of its attempt
    for (i, e) in h.input.iter().enumerate() {
        let K::Log(msg) = &e.k else { continue };
        let el = format!(
            "{}|{}|{}{}|{}",
            e.fpath.as_deref().map(|p| p.trim_start_matches('/')).unwrap_or_default(),
            e.feature.clone().unwrap_or_default(),
            e.rule.as_ref().map(|r| format!("{r} ")).unwrap_or_default(),
            e.sc_name.clone().unwrap_or_default(),
            e.sc_line
        );
        let key = e.attempt_key();
        let next = h.input[i + 1..].iter().filter(|x| x.attempt_key() == key).find_map(|x| match &x.k {
            K::StepPassed { .. } | K::StepSkipped { .. } | K::StepFailed { .. } => {
                let st = x.step.as_ref().unwrap();
                Some(format!("step|{}|{}{}", st.line, st.kw, st.text))
            }
            K::HookPassed(hk) | K::HookFailed(hk, ..) => Some(format!("hook|{hk:?}")),
            _ => None,
        });
        add(&mut want, format!("log|{el}|{}|{}", log_token(msg), next.unwrap_or_else(|| "dropped".into())));
    }
    let mut got = Bag::new();
    let s = |v: &serde_json::Value, k: &str| v.get(k).and_then(|x| x.as_str()).unwrap_or("").to_owned();
    let embedded = |v: &serde_json::Value| -> Vec<String> {
        v.get("embeddings")
            .and_then(|x| x.as_array())
            .map(|a| a.iter().map(|e| log_token(&String::from_utf8_lossy(&base64_decode(e.get("data").and_then(|d| d.as_str()).unwrap_or(""))))).collect())
            .unwrap_or_default()
    };
    for f in features {
        let fname = s(f, "name");
        for el in f.get("elements").and_then(|x| x.as_array()).map(Vec::as_slice).unwrap_or(&[]) {
            let id = s(el, "id");
            if fname.is_empty() && (id.starts_with("failed-to-parse") || id.starts_with("failed-to-expand-examples")) {
                for st in el.get("steps").and_then(|x| x.as_array()).map(Vec::as_slice).unwrap_or(&[]) {
                    let msg = st.get("result").map(|r| s(r, "error_message")).unwrap_or_default();
                    add(&mut got, format!("perr|{}", perr_token(&msg)));
                }
                continue;
            }
            // (the feature's `uri` is part of every fact: elements filed under another, same-named feature differ)
            let elk = format!("{}|{fname}|{}|{}", s(f, "uri").trim_start_matches('/'), s(el, "name"), el.get("line").and_then(serde_json::Value::as_u64).unwrap_or(0));
            let ty = s(el, "type");
            for st in el.get("steps").and_then(|x| x.as_array()).map(Vec::as_slice).unwrap_or(&[]) {
                let res = st.get("result").cloned().unwrap_or_default();
                let status = s(&res, "status");
                let msg = s(&res, "error_message");
                let tok = if matches!(status.as_str(), "failed" | "ambiguous" | "undefined") { text_token(&msg) } else { String::new() };
                add(
                    &mut got,
                    format!("step|{elk}|{ty}|{status}|{}|{}{}|{tok}", st.get("line").and_then(serde_json::Value::as_u64).unwrap_or(0), s(st, "keyword"), s(st, "name")),
                );
                for t in embedded(st) {
                    add(&mut got, format!("log|{elk}|{t}|step|{}|{}{}", st.get("line").and_then(serde_json::Value::as_u64).unwrap_or(0), s(st, "keyword"), s(st, "name")));
                }
            }
            for (key, hk) in [("before", "Before"), ("after", "After")] {
                for hr in el.get(key).and_then(|x| x.as_array()).map(Vec::as_slice).unwrap_or(&[]) {
                    let res = hr.get("result").cloned().unwrap_or_default();
                    if s(&res, "status") == "failed" {
                        add(&mut got, format!("hook|{elk}|{hk}|{}", text_token(&s(&res, "error_message"))));
                    }
                    for t in embedded(hr) {
                        add(&mut got, format!("log|{elk}|{t}|hook|{hk}"));
                    }
                }
            }
        }
    }
    if let Some((code, msg)) = diff("Cucumber JSON", &got, &want) {
        out.push(v(&format!("facts-{code}"), msg).attr("reporter", rep));
    }
    // one feature object per feature that reported a step or hook result (a report generator shows
    // every object of the array as a feature: more objects than features is something that did not happen)
    let mut want_objs = Bag::new();
    // (the document identifies a feature by uri + name: two features sharing both are one object by design)
    let mut seen_features: std::collections::BTreeSet<(String, String)> = std::collections::BTreeSet::new();
    for e in &h.input {
        if matches!(e.k, K::StepPassed { .. } | K::StepSkipped { .. } | K::StepFailed { .. } | K::HookPassed(_) | K::HookFailed(..)) {
            let key = (e.fpath.as_deref().map(|p| p.trim_start_matches('/')).unwrap_or_default().to_owned(), e.feature.clone().unwrap_or_default());
            if seen_features.insert(key.clone()) {
                add(&mut want_objs, format!("feature-object|{}|{}", key.0, key.1));
            }
        }
    }
    let mut got_objs = Bag::new();
    for f in features {
        let is_perr = f.get("elements").and_then(|x| x.as_array()).is_some_and(|els| {
            !els.is_empty() && els.iter().all(|el| { let id = s(el, "id"); id.starts_with("failed-to-parse") || id.starts_with("failed-to-expand-examples") })
        });
        if !(s(f, "name").is_empty() && is_perr) {
            add(&mut got_objs, format!("feature-object|{}|{}", s(f, "uri").trim_start_matches('/'), s(f, "name")));
        }
    }
    if let Some((code, msg)) = diff("Cucumber JSON feature objects", &got_objs, &want_objs) {
        out.push(v(&format!("feature-objects-{code}"), msg).attr("reporter", rep));
    }
    // likewise one element per (feature, scenario, line, kind): attempts of one scenario share theirs
    let mut want_els = Bag::new();
    let mut seen_els: std::collections::BTreeSet<String> = std::collections::BTreeSet::new();
    for e in &h.input {
        let ty = match &e.k {
            K::StepPassed { bg } | K::StepSkipped { bg } | K::StepFailed { bg, .. } | K::StepStarted { bg } => {
                if *bg { "background" } else { "scenario" }
            }
            K::HookPassed(_) | K::HookFailed(..) => "scenario",
            _ => continue,
        };
        let key = format!(
            "element|{}|{}|{}{}|{}|{ty}",
            e.fpath.as_deref().map(|p| p.trim_start_matches('/')).unwrap_or_default(),
            e.feature.clone().unwrap_or_default(),
            e.rule.as_ref().map(|r| format!("{r} ")).unwrap_or_default(),
            e.sc_name.clone().unwrap_or_default(),
            e.sc_line
        );
        if seen_els.insert(key.clone()) {
            add(&mut want_els, key);
        }
    }
    let mut got_els = Bag::new();
    for f in features {
        for el in f.get("elements").and_then(|x| x.as_array()).map(Vec::as_slice).unwrap_or(&[]) {
            let id = s(el, "id");
            if s(f, "name").is_empty() && (id.starts_with("failed-to-parse") || id.starts_with("failed-to-expand-examples")) {
                continue;
            }
            add(
                &mut got_els,
                format!("element|{}|{}|{}|{}|{}", s(f, "uri").trim_start_matches('/'), s(f, "name"), s(el, "name"), el.get("line").and_then(serde_json::Value::as_u64).unwrap_or(0), s(el, "type")),
            );
        }
    }
    if let Some((code, msg)) = diff("Cucumber JSON elements", &got_els, &want_els) {
        out.push(v(&format!("elements-{code}"), msg).attr("reporter", rep));
    }
}

/// `logtokNx` of a generated log message (the whole trimmed message if there is none).
fn log_token(msg: &str) -> String {
    msg.split(|c: char| !c.is_ascii_alphanumeric()).find(|w| w.starts_with("logtok")).map_or_else(|| msg.trim().to_owned(), str::to_owned)
}

fn base64_decode(s: &str) -> Vec<u8> {
    let val = |c: u8| -> Option<u32> {
        match c {
            b'A'..=b'Z' => Some(u32::from(c - b'A')),
            b'a'..=b'z' => Some(u32::from(c - b'a') + 26),
            b'0'..=b'9' => Some(u32::from(c - b'0') + 52),
            b'+' | b'-' => Some(62),
            b'/' | b'_' => Some(63),
            _ => None,
        }
    };
    let mut out = Vec::new();
    let (mut acc, mut bits) = (0u32, 0u32);
    for c in s.bytes() {
        let Some(v) = val(c) else { continue };
        acc = (acc << 6) | v;
        bits += 6;
        if bits >= 8 {
            bits -= 8;
            out.push((acc >> bits) as u8);
            acc &= (1 << bits) - 1;
        }
    }
    out
}

// ---------------------------------------------------------------------------------------------
// plain terminal output (also used for JUnit's system-out)

#[derive(Default)]
struct BasicCtx {
    feature: String,
    rule: String,
    scenario: String,
    attempt: usize,
}

/// Parses `writer::Basic` output (no colours) into step / hook / parse-error facts.
/// `scenario_level`: the text holds the events of one scenario only (JUnit system-out).
fn parse_basic(text: &str, ctx: &mut BasicCtx, scenario_level: bool, got: &mut Bag) -> Result<(), String> {
    let lines: Vec<&str> = text.lines().collect();
    let mut i = 0;
    let is_marker = |t: &str| {
        t.starts_with("✔  ") || t.starts_with("✔> ") || t.starts_with("?  ") || t.starts_with("?> ") || t.starts_with("✘  ") || t.starts_with("✘> ")
    };
    let is_header = |l: &str| {
        let t = l.trim_start();
        t.starts_with("Feature: ") || t.starts_with("Rule: ") || t.starts_with("Scenario: ") || t.starts_with("Scenario Outline: ") || t.starts_with("[Summary]") || t.starts_with("Failed to parse: ")
            || t.starts_with("LOGLINE ")
    };
    // log lines seen and not yet attached to the entry printed after them: (scenario context, token)
    let mut pending_logs: Vec<(String, String)> = Vec::new();
    let flush_logs = |pending: &mut Vec<(String, String)>, next: &str, got: &mut Bag| {
        for (sc, tok) in pending.drain(..) {
            add(got, format!("log|{sc}|{tok}|{next}"));
        }
    };
    while i < lines.len() {
        let l = lines[i];
        let indent = l.len() - l.trim_start().len();
        let t = l.trim_start();
        i += 1;
        if t.starts_with("[Summary]") {
            break;
        }
        if l.starts_with("LOGLINE ") {
            pending_logs.push((format!("{}|{}|{}|{}", ctx.feature, ctx.rule, ctx.scenario, ctx.attempt), log_token(l)));
            continue;
        }
        if let Some(rest) = t.strip_prefix("Failed to parse: ") {
            // error text may span lines until the next header
            let mut msg = rest.to_owned();
            while i < lines.len() && !is_header(lines[i]) && !is_marker(lines[i].trim_start()) {
                msg.push('\n');
                msg.push_str(lines[i]);
                i += 1;
            }
            add(got, format!("perr|{}", perr_token(&msg)));
            continue;
        }
        if indent == 0 && !scenario_level {
            if let Some(n) = t.strip_prefix("Feature: ") {
                flush_logs(&mut pending_logs, "end", got);
                ctx.feature = n.to_owned();
                ctx.rule.clear();
                continue;
            }
            if let Some(n) = t.strip_prefix("Rule: ") {
                flush_logs(&mut pending_logs, "end", got);
                ctx.rule = n.to_owned();
                continue;
            }
        }
        if let Some(n) = t.strip_prefix("Scenario: ").or_else(|| t.strip_prefix("Scenario Outline: ")) {
            flush_logs(&mut pending_logs, "end", got);
            if !scenario_level && indent < 4 {
                ctx.rule.clear();
            }
            match n.rsplit_once(" | Retry attempt: ") {
                Some((name, r)) => {
                    ctx.scenario = name.to_owned();
                    ctx.attempt = r.split('/').next().and_then(|x| x.parse().ok()).unwrap_or(0);
                }
                None => {
                    ctx.scenario = n.to_owned();
                    ctx.attempt = 0;
                }
            }
            continue;
        }
        if is_marker(t) {
            let bg = t.chars().nth(1) == Some('>');
            let status = match t.chars().next() {
                Some('✔') => "passed",
                Some('?') => "skipped",
                _ => "failed",
            };
            let first = &t[t.char_indices().nth(3).map_or(t.len(), |x| x.0)..];
            // gather continuation lines of this entry
            let mut body = String::new();
            while i < lines.len() && !is_header(lines[i]) && !is_marker(lines[i].trim_start()) {
                body.push_str(lines[i]);
                body.push('\n');
                i += 1;
            }
            let sc = format!("{}|{}|{}|{}", ctx.feature, ctx.rule, ctx.scenario, ctx.attempt);
            if let Some(rest) = first.strip_prefix("Scenario's ") {
                let hook = rest.split(' ').next().unwrap_or("");
                add(got, format!("hook|{sc}|{hook}|{}", text_token(&body)));
                flush_logs(&mut pending_logs, &format!("hook:{hook}"), got);
                continue;
            }
            let tok = if status == "failed" { text_token(&body) } else { String::new() };
            add(got, format!("step|{sc}|{bg}|{status}|{first}|{tok}"));
            flush_logs(&mut pending_logs, &format!("step:{first}"), got);
            continue;
        }
        // anything else: continuation we did not attach (doc strings of passed steps etc.)
    }
    flush_logs(&mut pending_logs, "end", got);
    Ok(())
}

fn basic_expected(input: &[Ev], with_feature: bool) -> Bag {
    let mut want = Bag::new();
    for e in input {
        let sc = format!(
            "{}|{}|{}|{}",
            if with_feature { e.feature.clone().unwrap_or_default() } else { String::new() },
            if with_feature { e.rule.clone().unwrap_or_default() } else { String::new() },
            e.sc_name.clone().unwrap_or_default(),
            attempt_no(e)
        );
        match &e.k {
            K::StepPassed { bg } | K::StepSkipped { bg } => {
                let st = e.step.as_ref().unwrap();
                let status = if matches!(e.k, K::StepPassed { .. }) { "passed" } else { "skipped" };
                add(&mut want, format!("step|{sc}|{bg}|{status}|{}{}|", st.kw, st.text));
            }
            K::StepFailed { bg, err, payload, .. } => {
                let st = e.step.as_ref().unwrap();
                add(&mut want, format!("step|{sc}|{bg}|failed|{}{}|{}", st.kw, st.text, failure_token(err, payload)));
            }
            K::HookFailed(hk, payload, _) => add(&mut want, format!("hook|{sc}|{hk:?}|{}", payload_token(payload))),
            K::ParseError(t) if with_feature => add(&mut want, format!("perr|{}", perr_token(t))),
            _ => {}
        }
    }
    // logs (tracing build): printed once, in the scenario's block, before the next entry the attempt prints
    for (i, e) in input.iter().enumerate() {
        let K::Log(msg) = &e.k else { continue };
        let sc = format!(
            "{}|{}|{}|{}",
            if with_feature { e.feature.clone().unwrap_or_default() } else { String::new() },
            if with_feature { e.rule.clone().unwrap_or_default() } else { String::new() },
            e.sc_name.clone().unwrap_or_default(),
            attempt_no(e)
        );
        let key = e.attempt_key();
        let next = input[i + 1..].iter().filter(|x| x.attempt_key() == key).find_map(|x| match &x.k {
            K::StepPassed { .. } | K::StepSkipped { .. } | K::StepFailed { .. } => {
                let st = x.step.as_ref().unwrap();
                Some(format!("step:{}{}", st.kw, st.text))
            }
            K::HookFailed(hk, ..) => Some(format!("hook:{hk:?}")),
            _ => None,
        });
        add(&mut want, format!("log|{sc}|{}|{}", log_token(msg), next.unwrap_or_else(|| "end".into())));
    }
    want
}

fn c14_basic(h: &RHistory, out: &mut Vec<Violation>) {
    let rep = "basic";
    let mut got = Bag::new();
    let mut ctx = BasicCtx::default();
    if let Err(e) = parse_basic(&h.output, &mut ctx, false, &mut got) {
        out.push(v("malformed", e).attr("reporter", rep));
        return;
    }
    let want = basic_expected(&h.input, true);
    if let Some((code, msg)) = diff("plain terminal output", &got, &want) {
        out.push(v(&format!("facts-{code}"), msg).attr("reporter", rep));
    }
    // terminal mode: what is left on the screen once every cursor movement and line clear has been
    // applied must be, colours aside, exactly the non-terminal output (no ghost `Started` lines, nothing erased)
    if let Some(t) = &h.term_output {
        match emulate_terminal(t) {
            Err(e) => out.push(v("terminal-malformed", e).attr("reporter", rep)),
            Ok(screen) => {
                let trim = |ls: Vec<String>| {
                    let mut ls = ls;
                    while ls.last().is_some_and(|l| l.is_empty()) {
                        ls.pop();
                    }
                    ls
                };
                let plain = trim(h.output.split('\n').map(str::to_owned).collect());
                let screen = trim(screen);
                if plain != screen {
                    let i = plain.iter().zip(&screen).position(|(a, b)| a != b).unwrap_or(plain.len().min(screen.len()));
                    out.push(
                        v(
                            "terminal-screen-differs",
                            format!(
                                "Coloring::Always: the screen after the run differs from the Coloring::Never output at line {i}: screen {:?} vs plain {:?} ({} vs {} lines)",
                                screen.get(i),
                                plain.get(i),
                                screen.len(),
                                plain.len()
                            ),
                        )
                        .attr("reporter", rep),
                    );
                }
            }
        }
    }
}

/// Minimal terminal: `\n`, `\r`, cursor up/down (`ESC[nA`, `ESC[nB`), erase line (`ESC[2K`), SGR
/// (`ESC[..m`, ignored). Anything else in an escape sequence is an error. Returns the screen lines.
pub fn emulate_terminal(s: &str) -> Result<Vec<String>, String> {
    let mut lines: Vec<Vec<char>> = vec![Vec::new()];
    let (mut row, mut col) = (0usize, 0usize);
    let cs: Vec<char> = s.chars().collect();
    let mut i = 0;
    while i < cs.len() {
        let c = cs[i];
        i += 1;
        match c {
            '\n' => {
                row += 1;
                col = 0;
                while lines.len() <= row {
                    lines.push(Vec::new());
                }
            }
            '\r' => col = 0,
            '\x1b' => {
                if cs.get(i) != Some(&'[') {
                    return Err(format!("terminal: ESC not followed by '[' at char {i}"));
                }
                i += 1;
                let st = i;
                while i < cs.len() && !cs[i].is_ascii_alphabetic() {
                    i += 1;
                }
                let Some(&fin) = cs.get(i) else { return Err("terminal: unterminated escape sequence".into()) };
                let arg: String = cs[st..i].iter().collect();
                i += 1;
                match fin {
                    'm' => {}
                    'A' => {
                        let n: usize = arg.parse().map_err(|_| format!("terminal: bad cursor-up argument {arg:?}"))?;
                        if n > row {
                            return Err(format!("terminal: cursor moved {n} lines up from row {row} (above the first line written)"));
                        }
                        row -= n;
                    }
                    'B' => {
                        let n: usize = arg.parse().map_err(|_| format!("terminal: bad cursor-down argument {arg:?}"))?;
                        row += n;
                        while lines.len() <= row {
                            lines.push(Vec::new());
                        }
                    }
                    'K' if arg == "2" => lines[row].clear(),
                    other => return Err(format!("terminal: unexpected sequence ESC[{arg}{other}")),
                }
            }
            ch => {
                let l = &mut lines[row];
                while l.len() < col {
                    l.push(' ');
                }
                if col < l.len() {
                    l[col] = ch;
                } else {
                    l.push(ch);
                }
                col += 1;
            }
        }
    }
    Ok(lines.into_iter().map(|l| l.into_iter().collect()).collect())
}

// ---------------------------------------------------------------------------------------------
// JUnit XML

fn c14_junit(h: &RHistory, out: &mut Vec<Violation>) {
    use quick_xml::{Reader, events::Event as X};
    let rep = "junit";
    let mut reader = Reader::from_str(&h.output);
    let mut got_cases = Bag::new();
    let mut got_steps = Bag::new();
    let mut suite = String::new();
    let mut case: Option<(String, String, String)> = None; // (name, status, token)
    let mut in_sysout = false;
    let mut sysout = String::new();
    let mut depth = 0i32;
    let attr = |e: &quick_xml::events::BytesStart<'_>, key: &str| -> Result<String, String> {
        for a in e.attributes() {
            let a = a.map_err(|e| e.to_string())?;
            if a.key.as_ref() == key.as_bytes() {
                return a.unescape_value().map(|c| c.into_owned()).map_err(|e| e.to_string());
            }
        }
        Ok(String::new())
    };
    // (suite, "path-or-name" found in a `Defined: <feature>:l:c` / `hook failed <feature>:l:c` line of a case's output)
    let found_labels: std::cell::RefCell<Vec<(String, String)>> = std::cell::RefCell::new(Vec::new());
    let mut finish_case = |case: &mut Option<(String, String, String)>, suite: &str, sysout: &mut String, got_cases: &mut Bag, got_steps: &mut Bag| {
        if let Some((name, status, tok)) = case.take() {
            if suite == "Errors" {
                add(got_cases, format!("perr|{tok}"));
            } else {
                let fname = suite.strip_prefix("Feature: ").unwrap_or(suite);
                for line in sysout.lines() {
                    let t = line.trim_start();
                    let rest = t.strip_prefix("Defined: ").or_else(|| t.split_once(" hook failed ").map(|(_, r)| r));
                    if let Some(rest) = rest {
                        // "<label>:<line>:<col>..." - the label itself may contain colons
                        let mut parts: Vec<&str> = rest.split(':').collect();
                        if parts.len() >= 3 {
                            parts.truncate(parts.len() - 2);
                            found_labels.borrow_mut().push((fname.to_owned(), parts.join(":")));
                        }
                    }
                }
                add(got_cases, format!("case|{fname}|{name}|{status}|{tok}"));
                let mut ctx = BasicCtx::default();
                let mut bag = Bag::new();
                let _ = parse_basic(sysout, &mut ctx, true, &mut bag);
                for (k, n) in bag {
                    // prefix with the suite + case so facts stay attributed
                    *got_steps.entry(format!("{fname}|{name}|{k}")).or_insert(0) += n;
                }
            }
        }
        sysout.clear();
    };
    loop {
        match reader.read_event() {
            Err(e) => {
                out.push(v("malformed", format!("JUnit XML is not well-formed at byte {}: {e}", reader.buffer_position())).attr("reporter", rep));
                return;
            }
            Ok(X::Eof) => break,
            Ok(ev @ (X::Start(_) | X::Empty(_))) => {
                let is_empty_elem = matches!(ev, X::Empty(_));
                let e = match &ev {
                    X::Start(e) | X::Empty(e) => e,
                    _ => unreachable!(),
                };
                let name = String::from_utf8_lossy(e.name().as_ref()).into_owned();
                match name.as_str() {
                    "testsuite" => match attr(e, "name") {
                        Ok(n) => suite = n,
                        Err(er) => {
                            out.push(v("malformed", format!("testsuite name attribute: {er}")).attr("reporter", rep));
                            return;
                        }
                    },
                    "testcase" => {
                        finish_case(&mut case, &suite, &mut sysout, &mut got_cases, &mut got_steps);
                        match attr(e, "name") {
                            Ok(n) => case = Some((n, "success".into(), String::new())),
                            Err(er) => {
                                out.push(v("malformed", format!("testcase name attribute: {er}")).attr("reporter", rep));
                                return;
                            }
                        }
                        if is_empty_elem {
                            finish_case(&mut case, &suite, &mut sysout, &mut got_cases, &mut got_steps);
                        }
                    }
                    "failure" | "error" => {
                        let ty = attr(e, "type").unwrap_or_default();
                        let msg = attr(e, "message").unwrap_or_default();
                        if let Some(c) = case.as_mut() {
                            c.1 = format!("failure:{ty}");
                            c.2 = if suite == "Errors" { perr_token(&msg) } else { text_token(&msg) };
                        }
                    }
                    "skipped" => {
                        if let Some(c) = case.as_mut() {
                            c.1 = "skipped".into();
                        }
                    }
                    "system-out" => in_sysout = !is_empty_elem,
                    _ => {}
                }
                if matches!(name.as_str(), "failure" | "error") && !is_empty_elem {
                    // junit-report puts the captured output of a failed case into the failure body
                    in_sysout = true;
                }
                if !is_empty_elem {
                    depth += 1;
                }
            }
            Ok(X::End(e)) => {
                depth -= 1;
                let name = String::from_utf8_lossy(e.name().as_ref()).into_owned();
                if matches!(name.as_str(), "system-out" | "failure" | "error") {
                    in_sysout = false;
                }
                if name == "testcase" {
                    finish_case(&mut case, &suite, &mut sysout, &mut got_cases, &mut got_steps);
                }
            }
            Ok(X::Text(t)) => {
                if in_sysout {
                    match t.unescape() {
                        Ok(s) => sysout.push_str(&s),
                        Err(e) => {
                            out.push(v("malformed", format!("system-out text: {e}")).attr("reporter", rep));
                            return;
                        }
                    }
                }
            }
            Ok(X::CData(t)) => {
                if in_sysout {
                    sysout.push_str(&String::from_utf8_lossy(&t.into_inner()));
                }
            }
            Ok(_) => {}
        }
    }
    if depth != 0 {
        out.push(v("malformed", format!("JUnit XML: unbalanced elements (depth {depth})")).attr("reporter", rep));
        return;
    }
    // every location printed inside a case names the case's own feature (its path, or its name if it has none)
    {
        let mut label_of: BTreeMap<String, String> = BTreeMap::new();
        for e in &h.input {
            if let Some(f) = &e.feature {
                let fname = format!("{f}{}", e.fpath.as_ref().map(|p| format!(": {p}")).unwrap_or_default());
                label_of.entry(fname).or_insert_with(|| e.fpath.clone().unwrap_or_else(|| f.clone()));
            }
        }
        for (fname, found) in found_labels.borrow().iter() {
            // (the step-definition line of a `Defined:` pair is followed by more text on some lines: compare the head)
            if let Some(want) = label_of.get(fname) {
                if !found.starts_with(want.as_str()) {
                    out.push(v("location-of-another-feature", format!("a case of `{fname}` prints the location `{found}:..`, its feature is `{want}`")).attr("reporter", rep));
                    break;
                }
            }
        }
    }
    // expected: one case per attempt, with the status of its decisive event
    let mut want_cases = Bag::new();
    let mut want_steps = Bag::new();
    let mut want_steps_of_skipped = Bag::new();
    let mut per_attempt: Vec<(Vec<&Ev>,)> = Vec::new();
    let mut idx: BTreeMap<_, usize> = BTreeMap::new();
    for e in &h.input {
        if let K::ParseError(t) = &e.k {
            add(&mut want_cases, format!("perr|{}", perr_token(t)));
        }
        let Some(k) = e.attempt_key() else { continue };
        let i = *idx.entry(k).or_insert_with(|| {
            per_attempt.push((Vec::new(),));
            per_attempt.len() - 1
        });
        per_attempt[i].0.push(e);
    }
    for (evs,) in &per_attempt {
        let first = evs[0];
        let fname = format!("{}{}", first.feature.clone().unwrap_or_default(), first.fpath.as_ref().map(|p| format!(": {p}")).unwrap_or_default());
        let cname = format!(
            "{}Scenario: {}: {}{}:",
            first.rule.as_ref().map(|r| format!("Rule: {r}: ")).unwrap_or_default(),
            first.sc_name.clone().unwrap_or_default(),
            first.fpath.as_ref().map(|p| format!("{p}:")).unwrap_or_default(),
            first.sc_line
        );
        let decisive = evs.iter().rev().find(|e| !matches!(e.k, K::Log(_) | K::ScFinished | K::HookStarted(Hk::After) | K::HookPassed(Hk::After)));
        let (status, tok) = match decisive.map(|e| &e.k) {
            Some(K::HookFailed(_, p, _)) => ("failure:Hook Panicked".to_owned(), payload_token(p)),
            Some(K::StepFailed { err, payload, .. }) => ("failure:Step Panicked".to_owned(), failure_token(err, payload)),
            Some(K::StepSkipped { .. }) => ("skipped".to_owned(), String::new()),
            _ => ("success".to_owned(), String::new()),
        };
        // the column is not part of the facts we track: compare the name up to the line
        add(&mut want_cases, format!("case|{fname}|{cname}|{status}|{tok}"));
        let owned: Vec<Ev> = evs.iter().map(|e| (*e).clone()).collect();
        let target = if status == "skipped" { &mut want_steps_of_skipped } else { &mut want_steps };
        for (k, n) in basic_expected(&owned, false) {
            *target.entry(format!("{fname}|{cname}|{k}")).or_insert(0) += n;
        }
    }
    // strip the column from the parsed case names ("...:line:col" -> "...:line:")
    let strip_col = |bag: Bag, pos: usize| -> Bag {
        let mut o = Bag::new();
        for (k, n) in bag {
            let mut parts: Vec<String> = k.split('|').map(str::to_owned).collect();
            if parts.len() > pos && parts[0] != "perr" {
                if let Some((head, col)) = parts[pos].rsplit_once(':') {
                    if col.chars().all(|c| c.is_ascii_digit()) {
                        parts[pos] = format!("{head}:");
                    }
                }
            }
            *o.entry(parts.join("|")).or_insert(0) += n;
        }
        o
    };
    let got_cases = strip_col(got_cases, 2);
    let got_steps = strip_col(got_steps, 1);
    if let Some((code, msg)) = diff("JUnit test cases", &got_cases, &want_cases) {
        out.push(v(&format!("cases-{code}"), msg).attr("reporter", rep));
    }
    // Known finding: for a test case that ends skipped the document carries no system-out at all
    // (junit-report writes only `<skipped/>`), so the steps of such scenarios are missing. Exactly
    // that loss is reported under its own code; anything else is compared strictly.
    // The facts of cases that do not end skipped are owed exactly; set them aside first (the same
    // fact may be owed by a skipped and by a non-skipped case: the same feature handed over twice),
    // then look for those of the skipped cases in what is left.
    let mut got_rest = got_steps.clone();
    let mut got_exact = Bag::new();
    for (k, n) in &want_steps {
        if let Some(g) = got_rest.get_mut(k) {
            let take = (*g).min(*n);
            *g -= take;
            if take > 0 {
                *got_exact.entry(k.clone()).or_insert(0) += take;
            }
        }
    }
    let mut lost_in_skipped = Vec::new();
    for (k, n) in &want_steps_of_skipped {
        match got_rest.get_mut(k) {
            Some(g) if *g >= *n => {
                *g -= *n;
            }
            _ => lost_in_skipped.push(k.clone()),
        }
    }
    got_rest.retain(|_, n| *n != 0);
    if !lost_in_skipped.is_empty() {
        if lost_in_skipped.len() as i64 == want_steps_of_skipped.values().filter(|n| **n > 0).count() as i64 {
            out.push(
                v("steps-of-skipped-case-missing", format!("JUnit: {} step fact(s) of scenario attempts that end skipped are not in the document (no system-out for skipped test cases), e.g. {:?}", lost_in_skipped.len(), lost_in_skipped.first()))
                    .attr("reporter", rep),
            );
        } else {
            out.push(v("facts-missing", format!("JUnit system-out of skipped cases is partially missing: {:?}", lost_in_skipped.iter().take(4).collect::<Vec<_>>())).attr("reporter", rep));
        }
    }
    // whatever is left over is extra; whatever of the exact part was not found is missing
    for (k, n) in got_rest {
        *got_exact.entry(k).or_insert(0) += n;
    }
    let got_rest = got_exact;
    if let Some((code, msg)) = diff("JUnit system-out", &got_rest, &want_steps) {
        out.push(v(&format!("facts-{code}"), msg).attr("reporter", rep));
    }
}
