//! Oracles over world-B histories: C01 (run verdict).

use std::collections::BTreeMap;

use crate::{
    core::RunEnd,
    model::{Static, Violation, attempts},
    plan::Plan,
    record::K,
    runb::{BHistory, fos_kind},
};

fn v(code: &str, msg: String) -> Violation {
    Violation::new("C01", code, msg)
}

/// Parses `N step(s) failed, M parsing error(s), K hook error(s)`.
fn parse_panic_msg(msg: &str) -> Option<BTreeMap<&'static str, usize>> {
    let mut m = BTreeMap::new();
    for part in msg.split(", ") {
        let n: usize = part.split_whitespace().next()?.parse().ok()?;
        if part.contains("step") && part.contains("failed") {
            m.insert("failed_steps", n);
        } else if part.contains("parsing error") {
            m.insert("parsing_errors", n);
        } else if part.contains("hook error") {
            m.insert("hook_errors", n);
        } else {
            return None;
        }
    }
    Some(m)
}

pub fn c01(plan: &Plan, h: &BHistory, out: &mut Vec<Violation>) {
    // Was the run driven to its end?
    let panicked = match h.end {
        RunEnd::Finished => false,
        RunEnd::Panicked => true,
        other => {
            out.push(v("run-did-not-end", format!("pipeline run ended with {other:?}")));
            return;
        }
    };
    let st = Static::new(plan);
    let evs = &h.raw;
    if !matches!(evs.last().map(|e| &e.k), Some(K::RunFinished)) {
        if panicked {
            out.push(v("panic-before-finished", format!("pipeline panicked before run-Finished: {:?}", h.panic_msg)));
        }
        return;
    }
    let ats = attempts(evs);
    let parse_errors = evs.iter().filter(|e| matches!(e.k, K::ParseError(_))).count();
    // "failed finally": a failed attempt that is the scenario's last one - it has no retry left, or
    // (whatever its counter says) no further attempt of that scenario followed
    let final_failure = ats.iter().any(|a| {
        a.failed(evs) && (a.left() == 0 || !ats.iter().any(|b| b.scenario == a.scenario && b.current() == a.current() + 1))
    });
    let fos = fos_kind(&h.stack);
    let fos_failure = fos > 0
        && ats.iter().any(|a| {
            a.skipped(evs)
                && match fos {
                    1 => st.scenarios.get(&a.scenario).is_some_and(|s| !s.allow_skipped),
                    _ => crate::worldc::custom_fos_name(&a.scenario),
                }
        });
    let expected = parse_errors > 0 || final_failure || fos_failure;
    // known finding: a hook failing in an attempt that is retried makes the run fail
    let hook_in_retried = ats.iter().any(|a| a.left() > 0 && a.seq.iter().any(|i| matches!(evs[*i].k, K::HookFailed(..))));
    // a fail-on-skipped NotFound failure is final by definition, also with retries left

    let Some(got) = h.probe.has_failed else {
        out.push(v("verdict-not-read", "filter_run_and_exit never asked the writer for execution_has_failed()".to_string()));
        return;
    };
    if got != panicked {
        out.push(v("panic-disagrees-with-stats", format!("execution_has_failed() = {got} but filter_run_and_exit {}", if panicked { "panicked" } else { "returned normally" })));
    }
    if got != expected {
        let why = format!(
            "parse errors {parse_errors}, final failure {final_failure}, fail-on-skipped failure {fos_failure} (stack {}), hook failed in retried attempt {hook_in_retried}",
            h.stack
        );
        if got && !expected && hook_in_retried {
            out.push(v("failed-by-hook-in-retried-attempt", format!("run reported failed although every scenario's last attempt passed or was merely skipped: {why}")));
        } else if got {
            out.push(v("reported-failed-without-failure", format!("run reported failed, nothing failed finally: {why}")).attr("stack", &h.stack));
        } else {
            out.push(
                v("failure-not-reported", format!("run reported successful although: {why}"))
                    .attr("cause", if parse_errors > 0 { "parse-error" } else if final_failure { "final-failure" } else { "fail-on-skipped" })
                    .attr("stack", &h.stack),
            );
        }
    }
    // the panic message names exactly the non-zero counters
    if let Some(msg) = &h.panic_msg {
        match parse_panic_msg(msg) {
            None => out.push(v("panic-message-unparsable", format!("panic message {msg:?}"))),
            Some(m) => {
                for (k, val) in [("failed_steps", h.probe.failed_steps), ("parsing_errors", h.probe.parsing_errors), ("hook_errors", h.probe.hook_errors)] {
                    let val = val.unwrap_or(0);
                    let in_msg = m.get(k).copied().unwrap_or(0);
                    if in_msg != val {
                        out.push(v("panic-message-counters", format!("panic message {msg:?} but {k} = {val}")));
                    }
                }
            }
        }
    }
    // libtest: the suite line agrees
    if let Some(text) = h.outputs.get("libtest") {
        let libtest_active = !(h.stack == "or_basic_libtest" && !plan.writer.report_time);
        if libtest_active {
            let suite: Vec<&str> = text.lines().filter(|l| l.contains("\"type\":\"suite\"") && !l.contains("\"event\":\"started\"")).collect();
            match suite.as_slice() {
                [line] => {
                    let failed = line.contains("\"event\":\"failed\"");
                    let ok = line.contains("\"event\":\"ok\"");
                    if failed == ok || failed != got {
                        out.push(v("libtest-suite-verdict", format!("libtest suite line {line} but execution_has_failed() = {got}")));
                    }
                }
                other => out.push(v("libtest-suite-line-count", format!("{} final suite lines in libtest output", other.len()))),
            }
        }
    }
}
