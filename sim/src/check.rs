//! Glue shared by the worker's modes: execute one plan for one property, aggregate
//! coverage statistics, shrink and write replay files.

use std::{
    collections::{BTreeMap, BTreeSet},
    rc::Rc,
};

use serde::{Deserialize, Serialize};

use crate::{
    core::{self, RunEnd},
    genplan::{self, Profile},
    model::{Analysis, Violation},
    oracle_a,
    plan::{Outcome, ParserItemKind, Plan},
    record::K,
    runa::{self, History},
    shrink,
    world::CbKind,
};

#[derive(Clone, Debug, Default, Serialize, Deserialize)]
pub struct Stats {
    pub runs: u64,
    pub ends: BTreeMap<String, u64>,
    pub nontrivial_hashes: BTreeSet<u64>,
    pub trivial_runs: u64,
    pub states: BTreeSet<String>,
    pub transitions: BTreeSet<String>,
    pub sim_ns: u128,
    pub events: u64,
    pub attempts: u64,
    pub faults: BTreeMap<String, u64>,
    pub probes: BTreeMap<String, u64>,
    pub samples: Vec<serde_json::Value>,
    pub violations: u64,
    pub shrink_execs: u64,
    pub max_in_flight: u64,
    pub overlapped_runs: u64,
}

impl Stats {
    pub fn bump(&mut self, k: &str, n: u64) {
        if n > 0 {
            *self.faults.entry(k.to_owned()).or_insert(0) += n;
        }
    }

    /// Input-shape probes: how often the rarer plan shapes were actually run.
    fn absorb_plan_shape(&mut self, plan: &Plan) {
        let mut bump = |k: &str| *self.probes.entry(k.to_owned()).or_insert(0) += 1;
        if plan.features.len() >= 2 && plan.features.windows(2).all(|w| w[0].name == w[1].name) {
            bump("plan:same_named_features");
        }
        let scs = || plan.features.iter().flat_map(|f| f.scenarios.iter().chain(f.rules.iter().flat_map(|r| r.scenarios.iter())));
        if scs().filter(|s| s.display.is_some()).count() >= 2 {
            bump("plan:same_named_scenarios");
        }
        if plan.features.iter().any(|f| f.positionless) {
            bump("plan:positionless_features");
        }
        if scs().any(|s| s.steps.len() >= 2 && s.steps[..s.steps.len() - 1].iter().any(|t| t.text == s.steps[s.steps.len() - 1].text)) {
            bump("plan:repeated_step_in_scenario");
        }
        if plan.features.is_empty() {
            bump("plan:no_feature_at_all");
        }
        if plan.features.len() >= 2 && plan.features.iter().enumerate().any(|(i, f)| plan.features[..i].iter().any(|g| g.name == f.name && g.path == f.path && g.scenarios.len() == f.scenarios.len() && g.scenarios.iter().zip(&f.scenarios).all(|(x, y)| x.name == y.name))) && plan.features.last().is_some_and(|f| plan.features[..plan.features.len() - 1].iter().any(|g| serde_json::to_string(g).ok() == serde_json::to_string(f).ok())) {
            bump("plan:same_feature_twice");
        }
        if plan.features.len() >= 18 {
            bump("plan:many_features");
        }
        if plan.pipeline {
            bump("plan:through_cucumber_pipeline");
        }
        if !plan.filtered_rules.is_empty() {
            bump("plan:filter_rejects_a_rule");
        }
        if plan.behaviours.values().flatten().any(|b| b.eager) {
            bump("plan:eager_panic_planned");
        }
    }

    pub fn absorb_history(&mut self, plan: &Plan, h: &History) {
        self.absorb_plan_shape(plan);
        self.runs += 1;
        *self.ends.entry(format!("{:?}", h.end)).or_insert(0) += 1;
        self.sim_ns += u128::from(h.stats.max_clock_ns);
        self.events += h.events.len() as u64;
        // fault kinds that actually fired
        let mut fired = 0u64;
        for c in &h.cb {
            if c.token.is_some() {
                fired += 1;
                let kind = match c.kind {
                    CbKind::WorldNew => "world_new",
                    CbKind::Before => "before_hook",
                    CbKind::Step => "step",
                    CbKind::After => "after_hook",
                };
                let what = match c.outcome {
                    Outcome::Err => "err",
                    Outcome::PanicString => "panic_string",
                    Outcome::PanicStr => "panic_str",
                    Outcome::PanicAny => "panic_any",
                    Outcome::Pass => "pass",
                };
                self.bump(&format!("{kind}:{what}"), 1);
                if c.eager {
                    self.bump(&format!("{kind}:panic_before_future_returned"), 1);
                }
            }
            let slow = c.exit.is_some_and(|x| x - c.enter > 1_000_000_000);
            if slow {
                self.bump("slow_callback_over_1s", 1);
            }
        }
        let mut undefined = 0;
        let mut ambiguous = 0;
        for e in &h.events {
            match &e.k {
                K::StepSkipped { .. } => undefined += 1,
                K::StepFailed { err: crate::record::ErrK::Ambiguous(_), .. } => ambiguous += 1,
                _ => {}
            }
        }
        fired += undefined + ambiguous;
        self.bump("undefined_step", undefined);
        self.bump("ambiguous_step", ambiguous);
        self.bump("parser_pending", u64::from(h.parser.pendings_returned));
        let mut late = 0;
        let mut perr = 0;
        for (i, _, is_err) in &h.parser.delivered {
            if *is_err {
                perr += 1;
            }
            if plan.items[*i].delay_ns > 0 {
                late += 1;
            }
        }
        fired += perr;
        self.bump("late_parser_item", late);
        self.bump("parser_error", perr);
        self.bump("spurious_root_poll", h.stats.spurious_polls);
        self.bump("batched_wakeups", h.stats.batched_fires);
        self.bump("timer_oversleep", h.stats.oversleeps);
        self.bump("busy_poll_time_jump", h.stats.busy_jumps);
        self.bump("slow_consumer_stall", h.stats.consumer_stalls);
        self.bump("stale_waker_ignored", h.stats.stale_wakes);
        self.bump("log_after_callback_returned_span_kept_open", h.stats.late_logs);
        self.bump("entity_at_the_address_of_a_freed_one", h.stats.reused_addresses);
        if plan.sched.fresh_wakers {
            self.bump("run_with_fresh_waker_per_poll", 1);
        }
        for (k, v) in &h.probes {
            *self.probes.entry(k.clone()).or_insert(0) += v;
        }
        // interleaving hash + overlap
        let mut running = 0u64;
        let mut max_running = 0u64;
        let mut hsh = core::FNV_INIT;
        let mut n_attempts = 0;
        for e in &h.events {
            core::fnv(&mut hsh, e.k.tag().as_bytes());
            if let Some(s) = &e.scenario {
                core::fnv(&mut hsh, s.as_bytes());
            }
            match e.k {
                K::ScStarted => {
                    running += 1;
                    n_attempts += 1;
                    max_running = max_running.max(running);
                }
                K::ScFinished => running = running.saturating_sub(1),
                _ => {}
            }
        }
        self.attempts += n_attempts;
        self.max_in_flight = self.max_in_flight.max(max_running);
        if max_running >= 2 {
            self.overlapped_runs += 1;
        }
        if max_running >= 2 || fired > 0 {
            self.nontrivial_hashes.insert(hsh);
        } else {
            self.trivial_runs += 1;
        }
        // abstract runner states at quiescent points
        let tripped_at = if plan.cfg.fail_fast() {
            let a = crate::model::attempts(&h.events);
            a.iter().filter(|t| t.failed(&h.events) && t.left() == 0).filter_map(|t| t.finished).min()
        } else {
            None
        };
        let total_sc: usize = {
            let mut n = 0;
            for (i, _, is_err) in &h.parser.delivered {
                if !*is_err {
                    if let ParserItemKind::Feature(fi) = &plan.items[*i].kind {
                        let f = &plan.features[*fi];
                        n += f.scenarios.iter().chain(f.rules.iter().flat_map(|r| r.scenarios.iter())).map(|s| s.examples.as_ref().map_or(1, Vec::len)).sum::<usize>();
                    }
                }
            }
            n
        };
        let mut prev: Option<String> = None;
        for q in &h.quiescent {
            let upto = &h.events[..q.events];
            let st = upto.iter().filter(|e| matches!(e.k, K::ScStarted)).count();
            let fi = upto.iter().filter(|e| matches!(e.k, K::ScFinished)).count();
            let first_started: BTreeSet<&str> =
                upto.iter().filter(|e| matches!(e.k, K::ScStarted)).filter_map(|e| e.scenario.as_deref()).collect();
            let bucket = |n: usize| match n {
                0 => "0",
                1 => "1",
                2..=3 => "2-3",
                4..=7 => "4-7",
                _ => "8+",
            };
            let waiting = total_sc.min(q.delivered * 1000).saturating_sub(first_started.len());
            let s = format!(
                "inflight={} notstarted={} parser_done={} tripped={}",
                bucket(st - fi.min(st)),
                bucket(waiting),
                q.parser_done,
                tripped_at.is_some_and(|t| q.events > t)
            );
            if let Some(p) = &prev {
                if *p != s {
                    self.transitions.insert(format!("{p} -> {s}"));
                }
            }
            self.states.insert(s.clone());
            prev = Some(s);
        }
        // tracing runs: abstract collector state at every delivered Log event
        // (attempts in flight, what the emitting attempt did last, whether it is a retry)
        {
            let mut in_flight = 0usize;
            let mut last_of: BTreeMap<(usize, usize, usize, Option<(usize, usize)>), &'static str> = BTreeMap::new();
            let mut prev: Option<String> = None;
            for e in &h.events {
                match e.k {
                    K::ScStarted => in_flight += 1,
                    K::ScFinished => in_flight = in_flight.saturating_sub(1),
                    _ => {}
                }
                let Some(key) = e.attempt_key() else { continue };
                if let K::Log(_) = e.k {
                    let s = format!(
                        "log inflight={} after={} retry={}",
                        match in_flight {
                            0 => "0",
                            1 => "1",
                            2..=3 => "2-3",
                            _ => "4+",
                        },
                        last_of.get(&key).copied().unwrap_or("-"),
                        e.retries.is_some_and(|r| r.0 > 0)
                    );
                    if let Some(p) = &prev {
                        if *p != s {
                            self.transitions.insert(format!("{p} -> {s}"));
                        }
                    }
                    self.states.insert(s.clone());
                    prev = Some(s);
                } else {
                    last_of.insert(key, e.k.tag());
                }
            }
        }
        if self.samples.len() < 3 && h.events.len() > 6 {
            let trace: Vec<String> = h.events.iter().take(60).map(crate::record::Ev::short).collect();
            self.samples.push(serde_json::json!({
                "plan_seed": plan.seed,
                "features": plan.features.len(),
                "limit": plan.cfg.limit(),
                "fail_fast": plan.cfg.fail_fast(),
                "hooks": [plan.before_hook, plan.after_hook],
                "sched": plan.sched,
                "end": format!("{:?}", h.end),
                "first_events": trace,
            }));
        }
    }

    pub fn absorb_c(&mut self, plan: &Plan, ch: &crate::worldc::CHistory) {
        self.absorb_plan_shape(plan);
        self.runs += 1;
        *self.ends.entry(format!("{:?}", ch.end.unwrap_or(RunEnd::Finished))).or_insert(0) += 1;
        self.sim_ns += u128::from(ch.stats.max_clock_ns);
        self.events += ch.input.len() as u64;
        self.attempts += ch.shape.attempts as u64;
        self.bump("slow_writer_pending", ch.slow_pendings);
        self.bump("parser_error", ch.shape.parse_errors as u64);
        self.bump("failed_attempt", ch.shape.failed_attempts as u64);
        self.bump("skipped_attempt", ch.shape.skipped_attempts as u64);
        self.bump("retried_attempt", ch.shape.retried_attempts as u64);
        self.bump("hook_failure", ch.shape.hook_failures as u64);
        self.bump("spurious_root_poll", ch.stats.spurious_polls);
        self.bump("batched_wakeups", ch.stats.batched_fires);
        self.bump(&format!("stack:{}", ch.stack), 1);
        if plan.writer.real_runner {
            self.bump("history_from_real_runner", 1);
            self.bump("entity_at_the_address_of_a_freed_one", ch.stats.reused_addresses);
        }
        // interleaving measure: hash of the input's (kind, scenario) sequence; non-trivial iff
        // two attempts are open at once somewhere in the input or a failure/skip/error occurs
        let mut hsh = core::FNV_INIT;
        let mut open = 0u64;
        let mut max_open = 0u64;
        for e in &ch.input {
            core::fnv(&mut hsh, e.k.tag().as_bytes());
            if let Some(s) = &e.scenario {
                core::fnv(&mut hsh, s.as_bytes());
            }
            match e.k {
                K::ScStarted => {
                    open += 1;
                    max_open = max_open.max(open);
                }
                K::ScFinished => open = open.saturating_sub(1),
                _ => {}
            }
        }
        core::fnv(&mut hsh, ch.stack.as_bytes());
        self.max_in_flight = self.max_in_flight.max(max_open);
        if max_open >= 2 {
            self.overlapped_runs += 1;
        }
        let faulty = ch.shape.failed_attempts + ch.shape.skipped_attempts + ch.shape.parse_errors + ch.shape.hook_failures > 0;
        if max_open >= 2 || faulty || ch.slow_pendings > 0 {
            self.nontrivial_hashes.insert(hsh);
        } else {
            self.trivial_runs += 1;
        }
        self.states.insert(format!("stack={} open={} slow={}", ch.stack, max_open.min(8), ch.slow_pendings > 0));
        if self.samples.len() < 3 && ch.input.len() > 8 {
            let trace: Vec<String> = ch.input.iter().take(50).map(crate::record::Ev::short).collect();
            self.samples.push(serde_json::json!({
                "plan_seed": plan.seed,
                "stack": ch.stack,
                "shape": ch.shape,
                "numbers": ch.numbers,
                "first_input_events": trace,
            }));
        }
    }

    pub fn absorb_r(&mut self, plan: &Plan, rh: &crate::reporters::RHistory) {
        self.absorb_plan_shape(plan);
        self.runs += 1;
        *self.ends.entry(format!("{:?}", rh.end.unwrap_or(RunEnd::Finished))).or_insert(0) += 1;
        self.sim_ns += u128::from(rh.stats.max_clock_ns);
        self.events += rh.input.len() as u64;
        self.attempts += rh.shape.attempts as u64;
        self.bump("sink_short_write", rh.short_writes);
        self.bump("sink_interrupted", rh.interrupts);
        self.bump("parser_error", rh.shape.parse_errors as u64);
        self.bump("failed_attempt", rh.shape.failed_attempts as u64);
        self.bump("skipped_attempt", rh.shape.skipped_attempts as u64);
        self.bump("retried_attempt", rh.shape.retried_attempts as u64);
        self.bump("hook_failure", rh.shape.hook_failures as u64);
        self.bump(&format!("reporter:{}", rh.reporter), 1);
        if plan.writer.real_runner {
            self.bump("history_from_real_runner", 1);
            self.bump("entity_at_the_address_of_a_freed_one", rh.stats.reused_addresses);
        }
        let mut hsh = core::FNV_INIT;
        let mut open = 0u64;
        let mut max_open = 0u64;
        for e in &rh.input {
            core::fnv(&mut hsh, e.k.tag().as_bytes());
            if let Some(s) = &e.scenario {
                core::fnv(&mut hsh, s.as_bytes());
            }
            match e.k {
                K::ScStarted => {
                    open += 1;
                    max_open = max_open.max(open);
                }
                K::ScFinished => open = open.saturating_sub(1),
                _ => {}
            }
        }
        core::fnv(&mut hsh, rh.reporter.as_bytes());
        self.max_in_flight = self.max_in_flight.max(max_open);
        if max_open >= 2 {
            self.overlapped_runs += 1;
        }
        let faulty = rh.shape.failed_attempts + rh.shape.skipped_attempts + rh.shape.parse_errors + rh.shape.hook_failures > 0;
        if max_open >= 2 || faulty || rh.short_writes + rh.interrupts > 0 {
            self.nontrivial_hashes.insert(hsh);
        } else {
            self.trivial_runs += 1;
        }
        self.states.insert(format!("reporter={} verbosity={} open={} sinkfaults={}", rh.reporter, rh.verbosity, max_open.min(8), rh.short_writes + rh.interrupts > 0));
        if self.samples.len() < 3 && rh.input.len() > 8 {
            self.samples.push(serde_json::json!({
                "plan_seed": plan.seed,
                "reporter": rh.reporter,
                "shape": rh.shape,
                "first_input_events": rh.input.iter().take(30).map(crate::record::Ev::short).collect::<Vec<_>>(),
                "report_head": rh.output.chars().take(600).collect::<String>(),
            }));
        }
    }

    pub fn absorb_b(&mut self, plan: &Plan, bh: &crate::runb::BHistory) {
        self.absorb_plan_shape(plan);
        // reuse the world-A accounting over the raw stream
        let h = bhistory_as_history(bh);
        self.absorb_history(plan, &h);
        self.bump("sink_short_write", bh.short_writes);
        self.bump("sink_interrupted", bh.interrupts);
        self.bump(&format!("stack:{}", bh.stack), 1);
        if bh.panic_msg.is_some() {
            self.bump("run_and_exit_panicked", 1);
        }
        self.states.insert(format!("stack={} failed={:?}", bh.stack, bh.probe.has_failed));
    }

    pub fn merge(&mut self, o: Stats) {
        self.runs += o.runs;
        for (k, v) in o.ends {
            *self.ends.entry(k).or_insert(0) += v;
        }
        self.nontrivial_hashes.extend(o.nontrivial_hashes);
        self.trivial_runs += o.trivial_runs;
        self.states.extend(o.states);
        self.transitions.extend(o.transitions);
        self.sim_ns += o.sim_ns;
        self.events += o.events;
        self.attempts += o.attempts;
        for (k, v) in o.faults {
            *self.faults.entry(k).or_insert(0) += v;
        }
        for (k, v) in o.probes {
            *self.probes.entry(k).or_insert(0) += v;
        }
        for s in o.samples {
            if self.samples.len() < 4 {
                self.samples.push(s);
            }
        }
        self.violations += o.violations;
        self.shrink_execs += o.shrink_execs;
        self.max_in_flight = self.max_in_flight.max(o.max_in_flight);
        self.overlapped_runs += o.overlapped_runs;
    }
}

/// Which simulated world decides a property.
pub fn world_of(prop: &str) -> char {
    match prop {
        "C02" | "C03" | "C04" | "C05" | "C06" | "C07" | "C08" | "C09" | "C10" => 'A',
        "C20" => 'T',
        "C01" => 'B',
        "C11" | "C12" | "C13" => 'C',
        "C14" => 'R',
        _ => 'C',
    }
}

pub struct Executed {
    pub violations: Vec<Violation>,
    pub history: Option<History>,
    pub chistory: Option<crate::worldc::CHistory>,
    pub bhistory: Option<crate::runb::BHistory>,
    pub rhistory: Option<crate::reporters::RHistory>,
}

impl Executed {
    pub fn digest(&self) -> u64 {
        match (&self.history, &self.chistory) {
            (Some(h), _) => h.digest(),
            (_, Some(c)) => c.digest(),
            _ => self.bhistory.as_ref().map(crate::runb::BHistory::digest).or_else(|| self.rhistory.as_ref().map(crate::reporters::RHistory::digest)).unwrap_or(0),
        }
    }
}

/// Chooses the writer stack and slow-writer knobs of a writer-world plan.
pub fn decorate_for_world_c(prop: &str, plan: &mut Plan) {
    let mut r = crate::core::Rng::new(plan.seed ^ 0xC0FFEE);
    let stacks: &[&str] = match prop {
        "C11" => crate::worldc::STACKS_C11,
        "C12" => crate::worldc::STACKS_C12,
        _ => crate::worldc::STACKS_C13,
    };
    plan.writer.stack = r.below(stacks.len() as u64) as u32;
    plan.writer.slow_pm = *r.pick(&[0u32, 0, 100, 400]);
    plan.writer.sink_seed = r.next_u64();
    // C13 wrappers are per-event: a third of the runs feed them arbitrary (non-abiding) streams
    plan.writer.verbosity = u8::from(prop == "C13" && r.chance(1, 3));
    // one run in twelve of C12 takes its history from a real simulated run of runner::Basic
    plan.writer.real_runner = matches!(prop, "C12" | "C11") && r.chance(1, 12);
    if prop == "C12" && !plan.writer.real_runner && r.chance(1, 6) {
        // scenarios of different features / rules sharing name (and, for equal shapes, line):
        // counters must key scenarios by identity, not by name
        for f in &mut plan.features {
            for (i, s) in f.scenarios.iter_mut().enumerate() {
                s.name = format!("same{i}");
            }
            for rl in &mut f.rules {
                for (i, s) in rl.scenarios.iter_mut().enumerate() {
                    s.name = format!("same{i}");
                }
            }
        }
    }
}

pub fn stack_name(prop: &str, plan: &Plan) -> String {
    let stacks: &[&str] = match prop {
        "C11" => crate::worldc::STACKS_C11,
        "C12" => crate::worldc::STACKS_C12,
        _ => crate::worldc::STACKS_C13,
    };
    let base = stacks[(plan.writer.stack as usize) % stacks.len()];
    if prop == "C13" && plan.writer.verbosity == 1 && !base.contains("tee_of_fos") { format!("x_{base}") } else { base.to_owned() }
}

/// Runs `plan` in world T (tracing collector installed; once per process!) and evaluates
/// `prop`'s oracle (C20, or any world-A oracle).
#[cfg(feature = "tracing")]
pub fn execute_t_inproc(prop: &str, plan: &Rc<Plan>) -> Result<Executed, String> {
    let h = crate::runt::run_world_t(plan)?;
    let violations = {
        let a = Analysis::new(plan, &h);
        if prop == "C20" {
            let mut v = Vec::new();
            crate::runt::c20(&a, &mut v);
            v
        } else {
            oracle_a::run_oracle(prop, &a)
        }
    };
    Ok(Executed { violations, history: Some(h), chistory: None, bhistory: None, rhistory: None })
}

#[cfg(not(feature = "tracing"))]
pub fn execute_t_inproc(_prop: &str, _plan: &Rc<Plan>) -> Result<Executed, String> {
    Err("harness: world T needs the tracing build of the worker".into())
}

/// Chooses the writer stack, reporter options and sink faults of a pipeline-world plan.
pub fn decorate_for_world_b(_prop: &str, plan: &mut Plan) {
    let mut r = crate::core::Rng::new(plan.seed ^ 0xB0B0);
    plan.writer.stack = r.below(crate::runb::STACKS_B.len() as u64) as u32;
    plan.writer.sink_seed = r.next_u64();
    plan.writer.verbosity = r.below(3) as u8;
    plan.writer.report_time = r.chance(1, 2);
    plan.writer.show_output = r.chance(1, 2);
    if r.chance(1, 2) {
        plan.writer.short_write_pm = *r.pick(&[50u32, 300, 800]);
        plan.writer.eintr_pm = *r.pick(&[0u32, 50, 300]);
    }
}

/// Chooses reporter, options and sink faults of a reporter-world plan.
pub fn decorate_for_world_r(plan: &mut Plan) {
    let mut r = crate::core::Rng::new(plan.seed ^ 0x4E90);
    plan.writer.stack = r.below(crate::reporters::REPORTERS.len() as u64) as u32;
    plan.writer.sink_seed = r.next_u64();
    plan.writer.verbosity = r.below(3) as u8;
    plan.writer.report_time = r.chance(1, 2);
    plan.writer.show_output = r.chance(1, 2);
    if r.chance(1, 2) {
        plan.writer.short_write_pm = *r.pick(&[50u32, 300, 800]);
        plan.writer.eintr_pm = *r.pick(&[0u32, 50, 300]);
    }
    // one run in twelve takes its history from a real simulated run of runner::Basic
    plan.writer.real_runner = r.chance(1, 12);
}

/// Runs one reporter over a synthetic history and evaluates C14.
pub fn execute_r(prop: &str, plan: &Rc<Plan>) -> Result<Executed, String> {
    if prop != "C14" {
        return Err(format!("harness: {prop} is not a reporter-world property"));
    }
    let rh = crate::reporters::run_reporter(plan)?;
    let mut v = Vec::new();
    crate::reporters::c14(&rh, &mut v);
    Ok(Executed { violations: v, history: None, chistory: None, bhistory: None, rhistory: Some(rh) })
}

/// Runs `plan` in world B and evaluates `prop`'s oracle.
/// The raw stream of a world-B run (tapped between runner and writers) as a world-A history.
pub fn bhistory_as_history(bh: &crate::runb::BHistory) -> History {
    History {
        events: bh.raw.clone(),
        event_poll: Vec::new(),
        quiescent: Vec::new(),
        cb: bh.cb.clone(),
        parser: bh.parser.clone(),
        end: if bh.end == RunEnd::Panicked && bh.panic_msg.as_deref().is_some_and(|m| m.contains("failed") || m.contains("error")) { RunEnd::Finished } else { bh.end },
        stream_ended: true,
        items_after_finished: 0,
        escaped_panic: None,
        hook_count_during: 0,
        hook_restored: true,
        stats: bh.stats.clone(),
        probes: BTreeMap::new(),
        dispatch_times: Vec::new(),
        sched_digest: bh.sched_digest,
        sched_trace: Vec::new(),
        max_in_callbacks: 0,
    }
}

pub fn execute_b(prop: &str, plan: &Rc<Plan>) -> Result<Executed, String> {
    let bh = crate::runb::run_world_b(plan)?;
    let mut v = Vec::new();
    match prop {
        "C01" => {
            crate::oracle_b::c01(plan, &bh, &mut v);
            // The verdict is judged against the event stream; whether that stream says what the plan
            // dictates (an ambiguous step IS a failure, an undefined one IS skipped ...) is the canonical
            // sequence check, applied here to the stream the writers were given.
            if v.is_empty() && matches!(bh.raw.last().map(|e| &e.k), Some(K::RunFinished)) {
                let h = bhistory_as_history(&bh);
                let a = Analysis::new(plan, &h);
                let mut w = Vec::new();
                oracle_a::c02(&a, &mut w);
                oracle_a::retry_eligibility(&a, &mut w);
                if let Some(first) = w.into_iter().next() {
                    v.push(Violation::new("C01", "verdict-of-a-stream-the-plan-does-not-dictate", format!("the verdict follows the stream, but the stream is not what the plan dictates: {}", first.msg)).attr("what", first.attrs.get("what").cloned().unwrap_or_default()));
                }
            }
        }
        _ => return Err(format!("harness: {prop} is not a world-B property")),
    }
    Ok(Executed { violations: v, history: None, chistory: None, bhistory: Some(bh), rhistory: None })
}

/// Runs `plan` in world C and evaluates `prop`'s oracle.
pub fn execute_c(prop: &str, plan: &Rc<Plan>) -> Result<Executed, String> {
    let which = stack_name(prop, plan);
    let ch = if matches!(prop, "C12" | "C11") && plan.writer.real_runner { crate::worldc::run_real_runner_c12(plan)? } else { crate::worldc::run_world_c(plan, &which)? };
    let mut v = Vec::new();
    match prop {
        "C11" => crate::worldc::c11(&ch, &mut v),
        "C12" => crate::worldc::c12(&ch, &mut v),
        "C13" => crate::worldc::c13(plan, &ch, &mut v),
        _ => return Err(format!("harness: {prop} is not a world-C property")),
    }
    Ok(Executed { violations: v, history: None, chistory: Some(ch), bhistory: None, rhistory: None })
}

/// Runs `plan` in world A and evaluates `prop`'s oracle.
pub fn execute_a(prop: &str, plan: &Rc<Plan>) -> Result<Executed, String> {
    let run = |p: &Rc<Plan>| if p.pipeline { crate::runp::run_world_p(p) } else { runa::run_world_a(p) };
    let h = run(plan)?;
    let violations = {
        let a = Analysis::new(plan, &h);
        let mut v = oracle_a::run_oracle(prop, &a);
        if prop == "C08" && plan.cfg.fail_fast() && v.is_empty() && a.first_final_failure.is_none() {
            // differential: same plan without fail-fast must give the same per-scenario outcomes
            let any_failed = a.attempts.iter().any(|t| t.failed(&h.events));
            let any_perr = h.events.iter().any(|e| matches!(e.k, K::ParseError(_)));
            if !any_failed && !any_perr && a.complete() {
                let mut p2 = (**plan).clone();
                p2.cfg.cli_fail_fast = false;
                p2.cfg.builder_fail_fast = false;
                let p2 = Rc::new(p2);
                let h2 = run(&p2)?;
                let a2 = Analysis::new(&p2, &h2);
                let (s1, s2) = (oracle_a::outcome_signature(&a), oracle_a::outcome_signature(&a2));
                if s1 != s2 {
                    v.push(Violation::new("C08", "fail-fast-changes-outcomes", format!("nothing failed, yet per-scenario outcomes differ between fail-fast and normal run:\n ff: {s1:?}\n normal: {s2:?}")));
                }
            }
        }
        if prop == "C05" && plan.pipeline && v.is_empty() && a.complete() {
            // differential: the retry budget of a scenario is a function of the configuration only, so the
            // same plan configured on `runner::Basic` directly (world A) and through the `Cucumber`
            // builder's forwarding methods (world P) must give every scenario the same budget
            let mut p2 = (**plan).clone();
            p2.pipeline = false;
            let p2 = Rc::new(p2);
            let h2 = runa::run_world_a(&p2)?;
            let a2 = Analysis::new(&p2, &h2);
            let budgets = |x: &Analysis<'_>| -> BTreeMap<(String, usize), Option<usize>> {
                x.by_scenario.iter().filter_map(|(k, idxs)| idxs.first().map(|i| ((k.0.clone(), 0usize), x.attempts[*i].retries.map(|r| r.0 + r.1)))).collect()
            };
            let (b1, b2) = (budgets(&a), budgets(&a2));
            for (k, n1) in &b1 {
                if let Some(n2) = b2.get(k) {
                    if n1 != n2 && !a.twin_names.contains(&k.0) {
                        v.push(Violation::new(
                            "C05",
                            "budget-differs-between-builders",
                            format!("scenario {}: retry budget {n1:?} when configured through the Cucumber builder, {n2:?} when the same options are set on runner::Basic", k.0),
                        ));
                        break;
                    }
                }
            }
        }
        v
    };
    Ok(Executed { violations, history: Some(h), chistory: None, bhistory: None, rhistory: None })
}

#[derive(Clone, Debug, Serialize, Deserialize)]
pub struct ReplayFile {
    pub property: String,
    pub world: String,
    pub build: String,
    pub seed: u64,
    pub run_index: u64,
    pub run_seed: u64,
    pub violation: Violation,
    pub class: String,
    pub minimised_plan: Plan,
    pub original_plan: Plan,
    pub shrink_executions: usize,
    /// Digest of the minimised run (events + callback log + schedule decisions).
    pub digest: u64,
    pub schedule: Vec<String>,
    pub fault_trace: Vec<String>,
    pub events: Vec<String>,
    pub gherkin: Vec<String>,
    /// The violation depends on process-global state left by an earlier run in the same process
    /// (panic hook, once-per-process initialisation): the replay executes a fixed warm-up run first.
    #[serde(default)]
    pub after_earlier_run: bool,
}

/// Fixed small plan (with at least one panicking step) executed before a replay whose violation
/// needs "an earlier run happened in this process".
pub fn warmup_plan() -> Plan {
    let prof = crate::genplan::Profile::for_prop("C10", false);
    for seed in 1u64.. {
        let p = crate::genplan::gen_plan(seed, &prof);
        let panics = p.behaviours.iter().any(|(site, bs)| site.starts_with("step:") && bs.first().is_some_and(|b| b.outcome.is_fault() && !b.eager));
        if panics && p.features.len() <= 2 {
            return p;
        }
    }
    unreachable!()
}

pub fn fault_trace(h: &History) -> Vec<String> {
    let mut v: Vec<String> = h
        .cb
        .iter()
        .filter(|c| c.token.is_some())
        .map(|c| format!("t={} {:?} in {}#{} token={}", c.exit.unwrap_or(c.enter), c.outcome, c.site, c.ordinal, c.token.as_deref().unwrap_or("")))
        .collect();
    for (i, t, e) in &h.parser.delivered {
        v.push(format!("t={t} parser item #{i} delivered{}", if *e { " (error)" } else { "" }));
    }
    v
}

/// How many consecutive polls without any observable progress make a quiescent point in a build whose
/// runner wakes itself on every poll (`tracing` feature): far more than the longest chain of internal
/// yields (one span-close notification is handled per poll: at most one per scenario in flight).
pub fn quiesce_polls_for(plan: &Plan) -> u32 {
    if cfg!(feature = "tracing") {
        let n: usize = plan.features.iter().map(|f| f.scenarios.len() + f.rules.iter().map(|r| r.scenarios.len()).sum::<usize>()).sum();
        // (each scenario of the plan may expand to three; two polls per attempt that can be in flight)
        200 + 2 * (3 * n as u32)
    } else {
        0
    }
}

pub fn build_name() -> &'static str {
    if cfg!(feature = "tracing") { "tracing" } else { "plain" }
}

/// Shrinks a failing plan and assembles the replay file.
pub fn make_replay(
    prop: &str,
    seed: u64,
    run_index: u64,
    run_seed: u64,
    plan: &Plan,
    viol: &Violation,
    exec: &dyn Fn(&str, &Rc<Plan>) -> Result<Executed, String>,
    budget: usize,
) -> Result<ReplayFile, String> {
    let class = viol.class();
    let mut still = |cand: &Plan| -> bool {
        match exec(prop, &Rc::new(cand.clone())) {
            Ok(e) => e.violations.iter().any(|v| v.class() == class),
            Err(_) => false,
        }
    };
    let (min, spent) = shrink::shrink(plan, budget, &mut still);
    let minr = Rc::new(min.clone());
    let e = exec(prop, &minr)?;
    let v = e.violations.iter().find(|v| v.class() == class).cloned().unwrap_or_else(|| viol.clone());
    Ok(ReplayFile {
        property: prop.to_owned(),
        world: if plan.tracing { "T".to_owned() } else { world_of(prop).to_string() },
        build: build_name().to_owned(),
        seed,
        run_index,
        run_seed,
        violation: v,
        class,
        minimised_plan: min.clone(),
        original_plan: plan.clone(),
        shrink_executions: spent,
        after_earlier_run: false,
        digest: e.digest(),
        schedule: e.history.as_ref().map(|h| h.sched_trace.clone()).unwrap_or_default(),
        fault_trace: e.history.as_ref().map(fault_trace).unwrap_or_else(|| {
            e.chistory.as_ref().map(|c| vec![format!("stack={} slow_writer_pendings={} shape={:?}", c.stack, c.slow_pendings, c.shape)]).unwrap_or_default()
        }),
        events: e
            .bhistory
            .as_ref()
            .map(|b| b.raw.iter().map(crate::record::Ev::short).collect::<Vec<_>>())
            .filter(|_| e.history.is_none())
            .into_iter()
            .next()
            .or_else(|| None)
            .unwrap_or_else(|| e
            .history
            .as_ref()
            .map(|h| h.events.iter().map(crate::record::Ev::short).collect())
            .unwrap_or_else(|| {
                e.chistory
                    .as_ref()
                    .map(|c| c.input.iter().map(crate::record::Ev::short).collect())
                    .or_else(|| {
                        e.rhistory.as_ref().map(|r| {
                            let mut v: Vec<String> = r.input.iter().map(crate::record::Ev::short).collect();
                            v.push(format!("--- {} report ---", r.reporter));
                            v.extend(r.output.lines().take(200).map(str::to_owned));
                            v
                        })
                    })
                    .unwrap_or_default()
            })),
        gherkin: min.features.iter().map(crate::plan::FeatureSpec::gherkin).collect(),
    })
}

pub fn profile_for(prop: &str, tier: &str) -> Profile {
    genplan::Profile::for_prop(prop, tier == "thorough")
}

pub fn end_is_abort(end: RunEnd) -> bool {
    end != RunEnd::Finished
}
