//! Greedy plan minimiser (delta debugging over the explicit `Plan`).

use crate::plan::{Outcome, ParserItemKind, Plan};

/// All single-step simplifications of `p`, roughly biggest first.
fn candidates(p: &Plan) -> Vec<Plan> {
    let mut out = Vec::new();
    // drop a feature (and the items referring to it)
    for fi in 0..p.features.len() {
        if p.features.len() == 1 {
            break;
        }
        let mut q = p.clone();
        q.features.remove(fi);
        q.items.retain(|it| !matches!(it.kind, ParserItemKind::Feature(i) if i == fi));
        for it in &mut q.items {
            if let ParserItemKind::Feature(i) = &mut it.kind {
                if *i > fi {
                    *i -= 1;
                }
            }
        }
        out.push(q);
    }
    // drop a parser error item
    for (ii, it) in p.items.iter().enumerate() {
        if !matches!(it.kind, ParserItemKind::Feature(_)) {
            let mut q = p.clone();
            q.items.remove(ii);
            out.push(q);
        }
    }
    for fi in 0..p.features.len() {
        let f = &p.features[fi];
        for ri in 0..f.rules.len() {
            let mut q = p.clone();
            q.features[fi].rules.remove(ri);
            out.push(q);
        }
        for si in 0..f.scenarios.len() {
            let mut q = p.clone();
            q.features[fi].scenarios.remove(si);
            out.push(q);
        }
        for ri in 0..f.rules.len() {
            for si in 0..f.rules[ri].scenarios.len() {
                let mut q = p.clone();
                q.features[fi].rules[ri].scenarios.remove(si);
                out.push(q);
            }
        }
    }
    // global simplifications
    {
        let mut q = p.clone();
        let mut changed = false;
        for it in &mut q.items {
            if it.delay_ns != 0 || it.pendings != 0 {
                it.delay_ns = 0;
                it.pendings = 0;
                changed = true;
            }
        }
        if changed {
            out.push(q);
        }
    }
    {
        let mut q = p.clone();
        let mut changed = false;
        for v in q.behaviours.values_mut() {
            for b in v.iter_mut() {
                if !b.awaits.is_empty() {
                    b.awaits.clear();
                    changed = true;
                }
            }
        }
        if changed {
            out.push(q);
        }
    }
    {
        let mut q = p.clone();
        let mut changed = false;
        for v in q.behaviours.values_mut() {
            for b in v.iter_mut() {
                if b.outcome != Outcome::Pass {
                    b.outcome = Outcome::Pass;
                    changed = true;
                }
            }
        }
        if changed {
            out.push(q);
        }
    }
    if p.before_hook {
        let mut q = p.clone();
        q.before_hook = false;
        out.push(q);
    }
    if p.after_hook {
        let mut q = p.clone();
        q.after_hook = false;
        out.push(q);
    }
    macro_rules! cfg_off {
        ($field:ident, $none:expr) => {{
            let mut q = p.clone();
            if q.cfg.$field != $none {
                q.cfg.$field = $none;
                out.push(q);
            }
        }};
    }
    cfg_off!(cli_concurrency, None);
    cfg_off!(builder_concurrency, crate::plan::BuilderLimit::Unset);
    cfg_off!(cli_retry, None);
    cfg_off!(builder_retries, None);
    cfg_off!(cli_retry_after_ns, None);
    cfg_off!(builder_retry_after_ns, None);
    cfg_off!(cli_fail_fast, false);
    cfg_off!(builder_fail_fast, false);
    cfg_off!(custom_which, false);
    if p.pipeline {
        let mut q = p.clone();
        q.pipeline = false;
        out.push(q);
    }
    if !p.filtered_rules.is_empty() {
        let mut q = p.clone();
        q.filtered_rules.clear();
        out.push(q);
    }
    cfg_off!(tags_filter, None);
    cfg_off!(cli_retry_filter, None);
    cfg_off!(builder_retry_filter, None);
    if p.cfg.closure_retry.is_some() {
        let mut q = p.clone();
        q.cfg.closure_retry = None;
        out.push(q);
    }
    {
        let mut q = p.clone();
        let s = &mut q.sched;
        if s.batch != 1 || s.spurious_pm != 0 || s.oversleep_ns != 0 || s.busy_k != 1 || s.consumer_pm != 0 {
            s.consumer_pm = 0;
            s.batch = 1;
            s.spurious_pm = 0;
            s.oversleep_ns = 0;
            s.busy_k = 1;
            out.push(q);
        }
    }
    {
        let mut q = p.clone();
        let w = &mut q.writer;
        if w.slow_pm != 0 || w.short_write_pm != 0 || w.eintr_pm != 0 {
            w.slow_pm = 0;
            w.short_write_pm = 0;
            w.eintr_pm = 0;
            out.push(q);
        }
    }
    // finer: steps, backgrounds, tags
    for fi in 0..p.features.len() {
        let f = &p.features[fi];
        for bi in 0..f.background.len() {
            let mut q = p.clone();
            q.features[fi].background.remove(bi);
            out.push(q);
        }
        if !f.tags.is_empty() {
            let mut q = p.clone();
            q.features[fi].tags.clear();
            out.push(q);
        }
        if f.path.is_none() {
            // keep: path-less features matter for some findings
        }
        for si in 0..f.scenarios.len() {
            let s = &f.scenarios[si];
            for ti in 0..s.steps.len() {
                let mut q = p.clone();
                q.features[fi].scenarios[si].steps.remove(ti);
                out.push(q);
            }
            for gi in 0..s.tags.len() {
                let mut q = p.clone();
                q.features[fi].scenarios[si].tags.remove(gi);
                out.push(q);
            }
            if s.examples.is_some() {
                let mut q = p.clone();
                q.features[fi].scenarios[si].examples = None;
                out.push(q);
            }
        }
        for ri in 0..f.rules.len() {
            let r = &f.rules[ri];
            for bi in 0..r.background.len() {
                let mut q = p.clone();
                q.features[fi].rules[ri].background.remove(bi);
                out.push(q);
            }
            if !r.tags.is_empty() {
                let mut q = p.clone();
                q.features[fi].rules[ri].tags.clear();
                out.push(q);
            }
            for si in 0..r.scenarios.len() {
                let s = &r.scenarios[si];
                for ti in 0..s.steps.len() {
                    let mut q = p.clone();
                    q.features[fi].rules[ri].scenarios[si].steps.remove(ti);
                    out.push(q);
                }
                for gi in 0..s.tags.len() {
                    let mut q = p.clone();
                    q.features[fi].rules[ri].scenarios[si].tags.remove(gi);
                    out.push(q);
                }
                if s.examples.is_some() {
                    let mut q = p.clone();
                    q.features[fi].rules[ri].scenarios[si].examples = None;
                    out.push(q);
                }
            }
        }
    }
    // per-behaviour neutralisation
    for (site, v) in &p.behaviours {
        for (i, b) in v.iter().enumerate() {
            if b.outcome != Outcome::Pass {
                let mut q = p.clone();
                q.behaviours.get_mut(site).unwrap()[i].outcome = Outcome::Pass;
                out.push(q);
            }
            if !b.awaits.is_empty() {
                let mut q = p.clone();
                q.behaviours.get_mut(site).unwrap()[i].awaits.clear();
                out.push(q);
            }
        }
    }
    for (ii, it) in p.items.iter().enumerate() {
        if it.delay_ns != 0 || it.pendings != 0 {
            let mut q = p.clone();
            q.items[ii].delay_ns = 0;
            q.items[ii].pendings = 0;
            out.push(q);
        }
    }
    out
}

/// Minimises `plan` while `still_fails` holds. Returns the minimised plan and the number of
/// executions spent.
pub fn shrink(plan: &Plan, budget: usize, still_fails: &mut dyn FnMut(&Plan) -> bool) -> (Plan, usize) {
    let mut cur = plan.clone();
    let mut spent = 0;
    'outer: loop {
        for cand in candidates(&cur) {
            if spent >= budget {
                break 'outer;
            }
            spent += 1;
            if still_fails(&cand) {
                cur = cand;
                continue 'outer;
            }
        }
        break;
    }
    // drop behaviours of sites that no longer exist
    (cur, spent)
}
