//! Simulator core: virtual clock, timer heap, leaf futures, root executor, PRNG.
//!
//! Everything is single-threaded. One `SimCore` per simulated run.

use std::{
    any::Any,
    cell::{Cell, RefCell},
    collections::{BTreeMap, BinaryHeap},
    cmp::Reverse,
    future::Future,
    panic::{self, AssertUnwindSafe},
    pin::Pin,
    rc::Rc,
    sync::{
        Arc,
        atomic::{AtomicBool, Ordering},
    },
    task::{Context, Poll, Wake, Waker},
    time::{Duration, Instant, SystemTime},
};

use futures::future::LocalBoxFuture;

// ---------------------------------------------------------------------------------------------
// PRNG

/// SplitMix64: tiny, good enough, and trivially reproducible.
#[derive(Clone, Debug)]
pub struct Rng(pub u64);

impl Rng {
    pub fn new(seed: u64) -> Self {
        Self(seed)
    }
    pub fn next_u64(&mut self) -> u64 {
        self.0 = self.0.wrapping_add(0x9E37_79B9_7F4A_7C15);
        let mut z = self.0;
        z = (z ^ (z >> 30)).wrapping_mul(0xBF58_476D_1CE4_E5B9);
        z = (z ^ (z >> 27)).wrapping_mul(0x94D0_49BB_1331_11EB);
        z ^ (z >> 31)
    }
    /// Uniform in `0..n` (n > 0).
    pub fn below(&mut self, n: u64) -> u64 {
        debug_assert!(n > 0);
        self.next_u64() % n
    }
    pub fn range(&mut self, lo: u64, hi_incl: u64) -> u64 {
        lo + self.below(hi_incl - lo + 1)
    }
    pub fn usize(&mut self, lo: usize, hi_incl: usize) -> usize {
        self.range(lo as u64, hi_incl as u64) as usize
    }
    /// `true` with probability `num/den`.
    pub fn chance(&mut self, num: u64, den: u64) -> bool {
        num > 0 && self.below(den) < num
    }
    pub fn pick<'a, T>(&mut self, xs: &'a [T]) -> &'a T {
        &xs[self.below(xs.len() as u64) as usize]
    }
    /// Log-uniform duration between 1 ns and `max_ns`.
    pub fn log_dur(&mut self, max_ns: u64) -> u64 {
        let bits = 64 - max_ns.max(1).leading_zeros() as u64;
        let b = self.range(0, bits.saturating_sub(1));
        let lo = 1u64 << b;
        let hi = (lo << 1).saturating_sub(1).min(max_ns.max(1));
        self.range(lo.min(hi), hi)
    }
    pub fn fork(&mut self) -> Rng {
        Rng(self.next_u64())
    }
}

pub fn splitmix(seed: u64, idx: u64) -> u64 {
    let mut r = Rng(seed ^ idx.wrapping_mul(0xD6E8_FEB8_6659_FD93));
    r.next_u64();
    r.next_u64()
}

pub fn fnv(h: &mut u64, bytes: &[u8]) {
    for b in bytes {
        *h ^= u64::from(*b);
        *h = h.wrapping_mul(0x0000_0100_0000_01B3);
    }
}

pub const FNV_INIT: u64 = 0xcbf2_9ce4_8422_2325;

// ---------------------------------------------------------------------------------------------
// Knobs & stats

#[derive(Clone, Debug, serde::Serialize, serde::Deserialize)]
pub struct SchedKnobs {
    /// PRNG seed of all scheduler decisions.
    pub seed: u64,
    /// Max number of timers fired before the root is polled again.
    pub batch: u32,
    /// Probability (per mille) of polling the root although nobody woke it.
    pub spurious_pm: u32,
    /// Number of self-woken no-progress polls granted before time jumps.
    pub busy_k: u32,
    /// Max extra nanoseconds a runner timer (retry sleeper) oversleeps (log-uniform), 0 = exact.
    pub oversleep_ns: u64,
    /// Probability (per mille, per received event) that the consumer of the event stream stalls
    /// (yield or virtual delay) before asking for the next event: the runner is then not polled.
    #[serde(default)]
    pub consumer_pm: u32,
    /// Every root poll gets a waker of its own and only the waker of the most recent poll wakes the
    /// root (what `Future::poll` promises and `select_all`-like consumers rely on): a future that
    /// keeps the waker of an earlier poll loses its wake-up.
    #[serde(default, skip_serializing_if = "std::ops::Not::not")]
    pub fresh_wakers: bool,
}

impl Default for SchedKnobs {
    fn default() -> Self {
        Self { seed: 1, batch: 1, spurious_pm: 0, busy_k: 2, oversleep_ns: 0, consumer_pm: 0, fresh_wakers: false }
    }
}

#[derive(Clone, Copy, Debug, PartialEq, Eq, serde::Serialize, serde::Deserialize)]
pub enum RunEnd {
    /// Root future completed.
    Finished,
    /// Root pending, not woken, nothing scheduled: lost wake-up.
    Deadlock,
    /// Root keeps waking itself, makes no progress, nothing scheduled.
    Livelock,
    /// Idle branch iterated > IDLE_TICK_CAP times within one poll.
    IdleSpin,
    /// Root poll cap exceeded.
    PollCap,
    /// A panic escaped the root future.
    Panicked,
}

pub const IDLE_TICK_CAP: u32 = 10_000;
pub const POLL_CAP: u64 = 400_000;
pub const LIVELOCK_POLLS: u32 = 2_000;

/// Sentinel payload used by `idle_tick` overflow.
#[derive(Debug)]
pub struct IdleSpinSentinel;

#[derive(Clone, Debug, Default, serde::Serialize, serde::Deserialize)]
pub struct SchedStats {
    pub root_polls: u64,
    pub spurious_polls: u64,
    pub timers_fired: u64,
    pub batched_fires: u64,
    pub busy_jumps: u64,
    pub oversleeps: u64,
    pub max_clock_ns: u64,
    pub quiescent_points: u64,
    #[serde(default)]
    pub consumer_stalls: u64,
    /// `fresh_wakers` runs: wake-ups through the waker of an earlier root poll (ignored).
    #[serde(default)]
    pub stale_wakes: u64,
    /// tracing runs with `Plan.late_logs`: logs emitted by the helper that outlives a callback.
    #[serde(default)]
    pub late_logs: u64,
    /// real-runner runs that keep no `Source` alive: entities that came to live at the address of a freed one.
    #[serde(default)]
    pub reused_addresses: u64,
}

struct TimerEntry {
    waker: Option<Waker>,
    fired: bool,
    label: u8,
}

pub struct SimCore {
    clock: Cell<u64>,
    base_instant: Instant,
    base_system: SystemTime,
    heap: RefCell<BinaryHeap<Reverse<(u64, u64, u64)>>>,
    timers: RefCell<BTreeMap<u64, TimerEntry>>,
    next_timer: Cell<u64>,
    pub rng: RefCell<Rng>,
    pub knobs: SchedKnobs,
    progress: Cell<u64>,
    idle_ticks: Cell<u32>,
    idle_mark: Cell<u64>,
    pub probes: RefCell<BTreeMap<&'static str, u64>>,
    /// Virtual time of every `dispatch` probe (hook H5: an attempt handed to the executor).
    pub dispatch_times: RefCell<Vec<u64>>,
    pub stats: RefCell<SchedStats>,
    /// Digest of every scheduling decision (replay determinism check).
    pub sched_digest: Cell<u64>,
    /// First decisions, kept verbatim for replay files.
    pub sched_trace: RefCell<Vec<String>>,
    pub in_root_poll: Cell<bool>,
    /// Builds in which the runner never goes quiet (with the `tracing` feature its log forwarder wakes
    /// itself on every poll): `n > 0` makes the executor, before half of its time jumps, keep polling
    /// until `n` consecutive polls made no progress and report THAT as a quiescent point.
    pub quiesce_polls: Cell<u32>,
    /// Tasks of their own next to the root future (spawned helpers): polled when their own waker
    /// fires, never waking the root by themselves.
    aux: RefCell<Vec<AuxTask>>,
}

struct AuxTask {
    fut: Pin<Box<dyn Future<Output = ()>>>,
    flag: Arc<AtomicBool>,
}

struct AuxWake(Arc<AtomicBool>);
impl Wake for AuxWake {
    fn wake(self: Arc<Self>) {
        self.0.store(true, Ordering::SeqCst);
    }
    fn wake_by_ref(self: &Arc<Self>) {
        self.0.store(true, Ordering::SeqCst);
    }
}

pub const LABEL_USER: u8 = 0;
pub const LABEL_PARSER: u8 = 1;
pub const LABEL_RUNNER_SLEEP: u8 = 2;
pub const LABEL_WRITER: u8 = 3;

impl SimCore {
    pub fn new(knobs: SchedKnobs) -> Rc<Self> {
        Rc::new(Self {
            clock: Cell::new(1_000),
            base_instant: Instant::now(),
            base_system: SystemTime::UNIX_EPOCH + Duration::from_secs(1_700_000_000),
            heap: RefCell::new(BinaryHeap::new()),
            timers: RefCell::new(BTreeMap::new()),
            next_timer: Cell::new(0),
            rng: RefCell::new(Rng::new(knobs.seed)),
            knobs,
            progress: Cell::new(0),
            idle_ticks: Cell::new(0),
            idle_mark: Cell::new(0),
            probes: RefCell::new(BTreeMap::new()),
            dispatch_times: RefCell::new(Vec::new()),
            stats: RefCell::new(SchedStats::default()),
            sched_digest: Cell::new(FNV_INIT),
            sched_trace: RefCell::new(Vec::new()),
            in_root_poll: Cell::new(false),
            quiesce_polls: Cell::new(0),
            aux: RefCell::new(Vec::new()),
        })
    }

    /// Spawns a task of its own next to the root future (polled once at the start, then whenever its
    /// own waker has fired).
    pub fn spawn_aux(&self, fut: Pin<Box<dyn Future<Output = ()>>>) {
        self.aux.borrow_mut().push(AuxTask { fut, flag: Arc::new(AtomicBool::new(true)) });
    }

    fn aux_woken(&self) -> bool {
        self.aux.borrow().iter().any(|t| t.flag.load(Ordering::SeqCst))
    }

    /// Polls every auxiliary task whose waker has fired; returns how many were polled.
    fn poll_aux(&self) -> usize {
        let mut tasks = std::mem::take(&mut *self.aux.borrow_mut());
        let mut polled = 0;
        tasks.retain_mut(|t| {
            if !t.flag.swap(false, Ordering::SeqCst) {
                return true;
            }
            polled += 1;
            let waker = Waker::from(Arc::new(AuxWake(Arc::clone(&t.flag))));
            let mut cx = Context::from_waker(&waker);
            t.fut.as_mut().poll(&mut cx).is_pending()
        });
        // (tasks spawned meanwhile, if any, are kept)
        let mut cur = self.aux.borrow_mut();
        tasks.append(&mut cur);
        *cur = tasks;
        polled
    }

    /// Reads the virtual clock; every read advances it by 1 ns, so all stamps are unique.
    pub fn now_ns(&self) -> u64 {
        let t = self.clock.get() + 1;
        self.clock.set(t);
        t
    }

    /// Reads the clock without advancing (logging only).
    pub fn peek_ns(&self) -> u64 {
        self.clock.get()
    }

    pub fn system_to_ns(&self, t: SystemTime) -> u64 {
        t.duration_since(self.base_system).map(|d| d.as_nanos() as u64).unwrap_or(0)
    }

    pub fn ns_to_system(&self, ns: u64) -> SystemTime {
        self.base_system + Duration::from_nanos(ns)
    }

    pub fn progress(&self) {
        self.progress.set(self.progress.get() + 1);
    }

    pub fn progress_count(&self) -> u64 {
        self.progress.get()
    }

    pub fn probe(&self, name: &'static str) {
        *self.probes.borrow_mut().entry(name).or_insert(0) += 1;
        if name == "dispatch" {
            let t = self.now_ns();
            self.dispatch_times.borrow_mut().push(t);
        }
    }

    fn decision(&self, s: impl FnOnce() -> String, tag: u8, val: u64) {
        let mut h = self.sched_digest.get();
        fnv(&mut h, &[tag]);
        fnv(&mut h, &val.to_le_bytes());
        self.sched_digest.set(h);
        let mut tr = self.sched_trace.borrow_mut();
        if tr.len() < 4000 {
            tr.push(s());
        }
    }

    fn register(&self, dur: u64, label: u8, waker: Waker) -> u64 {
        let id = self.next_timer.get();
        self.next_timer.set(id + 1);
        let deadline = self.clock.get().saturating_add(dur);
        let tie = self.rng.borrow_mut().next_u64();
        self.heap.borrow_mut().push(Reverse((deadline, tie, id)));
        self.timers.borrow_mut().insert(id, TimerEntry { waker: Some(waker), fired: false, label });
        self.progress();
        id
    }

    fn pending_timers(&self) -> usize {
        self.timers.borrow().values().filter(|t| !t.fired).count()
    }

    /// Fires the earliest timer; returns false if none.
    fn fire_next(&self) -> bool {
        loop {
            let Some(Reverse((deadline, _, id))) = self.heap.borrow_mut().pop() else {
                return false;
            };
            let waker = {
                let mut timers = self.timers.borrow_mut();
                let Some(t) = timers.get_mut(&id) else { continue }; // cancelled
                t.fired = true;
                t.waker.take()
            };
            if deadline > self.clock.get() {
                self.clock.set(deadline);
            }
            {
                let mut st = self.stats.borrow_mut();
                st.timers_fired += 1;
                st.max_clock_ns = st.max_clock_ns.max(self.clock.get());
            }
            self.decision(|| format!("fire t{id}@{deadline}"), 2, id);
            if let Some(w) = waker {
                w.wake();
            }
            return true;
        }
    }

    pub fn sleep(self: &Rc<Self>, dur_ns: u64, label: u8) -> SimSleep {
        SimSleep { core: Rc::clone(self), dur: dur_ns, id: None, label }
    }

    pub fn yield_now(self: &Rc<Self>) -> SimYield {
        SimYield { core: Rc::clone(self), done: false }
    }
}

/// Leaf future completing when the simulator fires its timer.
pub struct SimSleep {
    core: Rc<SimCore>,
    dur: u64,
    id: Option<u64>,
    label: u8,
}

impl Future for SimSleep {
    type Output = ();
    fn poll(mut self: Pin<&mut Self>, cx: &mut Context<'_>) -> Poll<()> {
        match self.id {
            None => {
                let id = self.core.register(self.dur, self.label, cx.waker().clone());
                self.id = Some(id);
                Poll::Pending
            }
            Some(id) => {
                let mut timers = self.core.timers.borrow_mut();
                match timers.get_mut(&id) {
                    Some(t) if t.fired => {
                        timers.remove(&id);
                        drop(timers);
                        self.core.progress();
                        Poll::Ready(())
                    }
                    Some(t) => {
                        t.waker = Some(cx.waker().clone());
                        Poll::Pending
                    }
                    None => Poll::Ready(()),
                }
            }
        }
    }
}

impl Drop for SimSleep {
    fn drop(&mut self) {
        if let Some(id) = self.id {
            self.core.timers.borrow_mut().remove(&id);
        }
    }
}

/// Leaf future returning `Pending` once while waking itself ("hot" pending).
pub struct SimYield {
    core: Rc<SimCore>,
    done: bool,
}

impl Future for SimYield {
    type Output = ();
    fn poll(mut self: Pin<&mut Self>, cx: &mut Context<'_>) -> Poll<()> {
        if self.done {
            Poll::Ready(())
        } else {
            self.done = true;
            self.core.progress();
            cx.waker().wake_by_ref();
            Poll::Pending
        }
    }
}

// ---------------------------------------------------------------------------------------------
// Hooks into the product (H1–H3)

pub struct Hooks(pub Rc<SimCore>);

impl cucumber::verif::SimHooks for Hooks {
    fn now(&self) -> Instant {
        self.0.base_instant + Duration::from_nanos(self.0.now_ns())
    }
    fn system_now(&self) -> SystemTime {
        self.0.ns_to_system(self.0.now_ns())
    }
    fn sleep(&self, dur: Duration) -> LocalBoxFuture<'static, ()> {
        let mut ns = dur.as_nanos().min(u128::from(u64::MAX / 4)) as u64;
        let over = self.0.knobs.oversleep_ns;
        if over > 0 {
            let extra = self.0.rng.borrow_mut().log_dur(over);
            ns = ns.saturating_add(extra);
            self.0.stats.borrow_mut().oversleeps += 1;
        }
        Box::pin(self.0.sleep(ns, LABEL_RUNNER_SLEEP))
    }
    fn idle_tick(&self) {
        // Turns of the idle branch within one root poll *between which nothing observable happened*: behind the
        // pipeline's feed loop one root poll can span a long stretch of the run (the loop re-polls the runner
        // for every event it hands to the writer; a backlog of 20 000 queued log events means 20 000 re-polls,
        // each of which may pass the idle branch once, properly yielding every time).
        let p = self.0.progress_count();
        if p != self.0.idle_mark.get() {
            self.0.idle_mark.set(p);
            self.0.idle_ticks.set(0);
        }
        let n = self.0.idle_ticks.get() + 1;
        self.0.idle_ticks.set(n);
        self.0.probe("idle_branch");
        if n > IDLE_TICK_CAP {
            panic::panic_any(IdleSpinSentinel);
        }
    }
    fn probe(&self, name: &'static str) {
        self.0.probe(name);
    }
}

pub fn install_hooks(core: &Rc<SimCore>) {
    let h: Rc<dyn cucumber::verif::SimHooks> = Rc::new(Hooks(Rc::clone(core)));
    drop(cucumber::verif::install(Some(h)));
}

pub fn uninstall_hooks() {
    drop(cucumber::verif::install(None));
}

// ---------------------------------------------------------------------------------------------
// Executor

/// Root waker: sets the shared flag - unless it belongs to an earlier poll and the run uses
/// `fresh_wakers` (then only the generation of the most recent poll counts).
struct RootWake {
    flag: Arc<AtomicBool>,
    current: Arc<std::sync::atomic::AtomicU64>,
    generation: u64,
    strict: bool,
    stale_wakes: Arc<std::sync::atomic::AtomicU64>,
}

impl Wake for RootWake {
    fn wake(self: Arc<Self>) {
        self.wake_by_ref();
    }
    fn wake_by_ref(self: &Arc<Self>) {
        if !self.strict || self.current.load(Ordering::SeqCst) == self.generation {
            self.flag.store(true, Ordering::SeqCst);
        } else {
            self.stale_wakes.fetch_add(1, Ordering::SeqCst);
        }
    }
}

/// What the executor tells the per-poll observer after each root poll.
pub struct PollInfo {
    /// Root returned `Pending` and did not wake itself: a quiescent point.
    pub quiescent: bool,
    pub finished: bool,
}

pub struct RunOutcome {
    pub end: RunEnd,
    pub panic_payload: Option<Box<dyn Any + Send>>,
}

/// Drives `root` to completion under the simulated scheduler.
pub fn run_root<'a>(core: &Rc<SimCore>, root: Pin<Box<dyn Future<Output = ()> + 'a>>, per_poll: &mut dyn FnMut(&PollInfo)) -> RunOutcome {
    let out = run_root_inner(core, root, per_poll);
    // (auxiliary tasks hold the core: drop them with the run)
    core.aux.borrow_mut().clear();
    out
}

fn run_root_inner<'a>(
    core: &Rc<SimCore>,
    mut root: Pin<Box<dyn Future<Output = ()> + 'a>>,
    per_poll: &mut dyn FnMut(&PollInfo),
) -> RunOutcome {
    let knobs = core.knobs.clone();
    let flag = Arc::new(AtomicBool::new(true));
    let current = Arc::new(std::sync::atomic::AtomicU64::new(0));
    let stale_wakes = Arc::new(std::sync::atomic::AtomicU64::new(0));
    let mk_waker = |generation: u64| {
        Waker::from(Arc::new(RootWake {
            flag: Arc::clone(&flag),
            current: Arc::clone(&current),
            generation,
            strict: knobs.fresh_wakers,
            stale_wakes: Arc::clone(&stale_wakes),
        }))
    };
    let mut waker = mk_waker(0);
    let mut noprog: u32 = 0;
    let quiesce = core.quiesce_polls.get();
    // whether the current stretch of self-woken polls is waited out until it is provably quiet
    let mut patient = quiesce > 0;

    loop {
        // auxiliary tasks: whenever woken - before the root's poll or, half of the time when the root is
        // woken as well, after it (next turn)
        if core.aux_woken() {
            let defer = flag.load(Ordering::SeqCst) && core.rng.borrow_mut().chance(1, 2);
            if !defer {
                let n = core.poll_aux();
                core.decision(|| format!("aux{n}"), 4, n as u64);
            }
        }
        let woken = flag.swap(false, Ordering::SeqCst);
        let mut do_poll = woken;
        if !woken && knobs.spurious_pm > 0 {
            let sp = core.rng.borrow_mut().chance(u64::from(knobs.spurious_pm), 1000);
            if sp {
                do_poll = true;
                core.stats.borrow_mut().spurious_polls += 1;
            }
        }
        if do_poll {
            let before = core.progress_count();
            core.idle_ticks.set(0);
            core.decision(|| format!("poll{}", if woken { "" } else { "*" }), 1, u64::from(woken));
            core.in_root_poll.set(true);
            if knobs.fresh_wakers {
                let g = current.fetch_add(1, Ordering::SeqCst) + 1;
                waker = mk_waker(g);
            }
            let mut cx = Context::from_waker(&waker);
            let res = panic::catch_unwind(AssertUnwindSafe(|| root.as_mut().poll(&mut cx)));
            core.in_root_poll.set(false);
            core.stats.borrow_mut().stale_wakes = stale_wakes.load(Ordering::SeqCst);
            let polls = {
                let mut st = core.stats.borrow_mut();
                st.root_polls += 1;
                st.root_polls
            };
            match res {
                Err(payload) => {
                    let end = if payload.is::<IdleSpinSentinel>() {
                        RunEnd::IdleSpin
                    } else {
                        RunEnd::Panicked
                    };
                    // The root future is in an unknown state: leak it rather than run
                    // destructors of half-unwound state machines.
                    std::mem::forget(root);
                    return RunOutcome { end, panic_payload: Some(payload) };
                }
                Ok(Poll::Ready(())) => {
                    per_poll(&PollInfo { quiescent: false, finished: true });
                    return RunOutcome { end: RunEnd::Finished, panic_payload: None };
                }
                Ok(Poll::Pending) => {}
            }
            let self_woken = flag.load(Ordering::SeqCst);
            if core.progress_count() == before {
                noprog += 1;
            } else {
                noprog = 0;
            }
            if !self_woken {
                core.stats.borrow_mut().quiescent_points += 1;
            }
            per_poll(&PollInfo { quiescent: !self_woken, finished: false });
            if polls > POLL_CAP * if quiesce > 0 { 8 } else { 1 } {
                return RunOutcome { end: RunEnd::PollCap, panic_payload: None };
            }
            if self_woken {
                let want = if patient { quiesce.max(knobs.busy_k) } else { knobs.busy_k.max(1) };
                if noprog < want {
                    continue;
                }
                if patient && noprog == want {
                    // `quiesce` polls in a row changed nothing observable: whatever the runner was going to
                    // do in reaction to the last event, it has done
                    core.stats.borrow_mut().quiescent_points += 1;
                    per_poll(&PollInfo { quiescent: true, finished: false });
                }
                if core.pending_timers() == 0 && !core.aux_woken() {
                    if noprog > LIVELOCK_POLLS.max(4 * quiesce) {
                        return RunOutcome { end: RunEnd::Livelock, panic_payload: None };
                    }
                    continue;
                }
                core.stats.borrow_mut().busy_jumps += 1;
                if quiesce > 0 {
                    // (at most 200 waited-out stretches per run: a run with a thousand timers must not spend
                    // its poll budget on waiting)
                    patient = core.rng.borrow_mut().chance(1, 2) && core.stats.borrow().quiescent_points < 200;
                }
            }
        }
        // Let simulated time pass: fire 1..=batch timers.
        let n = if knobs.batch > 1 {
            core.rng.borrow_mut().range(1, u64::from(knobs.batch))
        } else {
            1
        };
        let mut fired = 0;
        for _ in 0..n {
            if core.fire_next() {
                fired += 1;
            } else {
                break;
            }
        }
        if fired > 1 {
            core.stats.borrow_mut().batched_fires += 1;
        }
        if fired == 0 && !flag.load(Ordering::SeqCst) && !core.aux_woken() {
            return RunOutcome { end: RunEnd::Deadlock, panic_payload: None };
        }
    }
}
