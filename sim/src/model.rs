//! Reference model: static facts derived from a `Plan`, grouping of the raw event
//! stream into attempts, and the sequential interpreter predicting each attempt's
//! canonical event list.

use std::collections::{BTreeMap, BTreeSet};

use serde::{Deserialize, Serialize};

use crate::{
    plan::{Def, FeatureSpec, Outcome, Plan, ScenarioSpec, StepSpec, site_after, site_before, site_step},
    record::{ErrK, Ev, Hk, K, token_of},
    runa::History,
    world::{CbEntry, CbKind},
};

#[derive(Clone, Debug, Default, PartialEq, Eq, Serialize, Deserialize)]
pub struct Violation {
    pub prop: String,
    pub code: String,
    pub attrs: BTreeMap<String, String>,
    pub msg: String,
}

impl Violation {
    pub fn new(prop: &str, code: &str, msg: impl Into<String>) -> Self {
        Self { prop: prop.into(), code: code.into(), attrs: BTreeMap::new(), msg: msg.into() }
    }
    pub fn attr(mut self, k: &str, v: impl ToString) -> Self {
        self.attrs.insert(k.into(), v.to_string());
        self
    }
    /// Class used by the shrinker and the known-findings matcher.
    pub fn class(&self) -> String {
        let a: Vec<String> = self.attrs.iter().map(|(k, v)| format!("{k}={v}")).collect();
        format!("{}:{}:{}", self.prop, self.code, a.join(","))
    }
}

/// Static facts about one (expanded) scenario of the plan.
#[derive(Clone, Debug)]
pub struct ScInfo {
    pub name: String,
    pub feature: String,
    pub feature_idx: usize,
    pub rule: Option<String>,
    /// (text, def, is_background) in execution order: feature bg, rule bg, own.
    pub steps: Vec<(String, Def, bool)>,
    pub own_steps: usize,
    pub tags_inherited: Vec<String>,
    pub serial: bool,
    pub allow_skipped: bool,
    /// Retry delay if the plan fixes it unambiguously (closure or full scenario tag).
    pub known_delay: Option<Option<u64>>,
}

pub struct Static {
    pub scenarios: BTreeMap<String, ScInfo>,
    /// feature index in the plan -> (rules, scenarios (expanded), own steps (expanded))
    /// (by index, not by name: features may share a name)
    pub feature_counts: BTreeMap<usize, (usize, usize, usize)>,
    /// feature index in the plan -> names of the scenarios it hands to the runner (twin features
    /// share their names: `scenarios` above then holds one entry for both)
    pub feature_scenarios: BTreeMap<usize, Vec<String>>,
}

/// What the runner reads off the first `retry...` tag of one level (scenario, rule or feature):
/// `Some(after)` if there is such a tag, `after` being its `.after(<n>ns)` part if it has one.
/// `Err(())`: a delay is given in a form this model does not read.
fn level_retry_tag(tags: &[String]) -> Option<Result<Option<u64>, ()>> {
    let rest = tags.iter().find_map(|t| t.strip_prefix("retry"))?;
    let rest = match rest.strip_prefix('(').and_then(|s| s.split_once(')')) {
        Some((n, r)) if n.parse::<usize>().is_ok() => r,
        _ => rest,
    };
    Some(match rest.strip_prefix(".after") {
        None => Ok(None),
        Some(a) => a.strip_prefix('(').and_then(|a| a.split_once(')')).and_then(|(d, _)| d.strip_suffix("ns")?.parse::<u64>().ok()).map(Some).ok_or(()),
    })
}

/// Retry delay of a scenario as the runner resolves it without a `retry_options` closure: the
/// `.after(..)` of the nearest retry tag (scenario, then rule, then feature), else `--retry-after`,
/// else the builder's `retry_after`. `None`: not modelled.
fn resolved_delay(plan: &Plan, scenario_tags: &[String], rule_tags: Option<&[String]>, feature_tags: &[String]) -> Option<Option<u64>> {
    let fallback = plan.cfg.cli_retry_after_ns.or(plan.cfg.builder_retry_after_ns);
    let nearest = level_retry_tag(scenario_tags).or_else(|| rule_tags.and_then(level_retry_tag)).or_else(|| level_retry_tag(feature_tags));
    match nearest {
        None => Some(fallback),
        Some(Ok(after)) => Some(after.or(fallback)),
        Some(Err(())) => None,
    }
}

#[allow(dead_code)]
fn parse_full_retry_tag(tag: &str) -> Option<u64> {
    // retry(N).after(Xns)
    let rest = tag.strip_prefix("retry(")?;
    let (_, rest) = rest.split_once(')')?;
    let rest = rest.strip_prefix(".after(")?;
    let (d, _) = rest.split_once(')')?;
    d.strip_suffix("ns")?.parse().ok()
}

impl Static {
    pub fn new(plan: &Plan) -> Self {
        let mut scenarios = BTreeMap::new();
        let mut feature_counts = BTreeMap::new();
        let mut feature_scenarios: BTreeMap<usize, Vec<String>> = BTreeMap::new();
        for (fi, f) in plan.features.iter().enumerate() {
            feature_scenarios.insert(fi, Vec::new());
            let mut n_sc = 0;
            let mut n_steps = 0;
            let mut add = |s: &ScenarioSpec, rule: Option<&crate::plan::RuleSpec>, f: &FeatureSpec| {
                let n_ex = s.examples.as_ref().map_or(1, Vec::len);
                for k in 0..n_ex {
                    let suffix = s.examples.as_ref().map(|v| format!(" {}", v[k])).unwrap_or_default();
                    let name = format!("{}{suffix}", s.name);
                    let mut steps: Vec<(String, Def, bool)> = Vec::new();
                    let push = |v: &mut Vec<(String, Def, bool)>, st: &StepSpec, bg: bool, suffix: &str| {
                        v.push((format!("{}{suffix}", st.text), st.def, bg));
                    };
                    for st in &f.background {
                        push(&mut steps, st, true, "");
                    }
                    if let Some(r) = rule {
                        for st in &r.background {
                            push(&mut steps, st, true, "");
                        }
                    }
                    for st in &s.steps {
                        push(&mut steps, st, false, &suffix);
                    }
                    let mut tags: Vec<String> = s.tags.clone();
                    if s.examples.is_some() {
                        tags.extend(s.examples_tags.iter().cloned());
                    }
                    if let Some(r) = rule {
                        tags.extend(r.tags.iter().cloned());
                    }
                    tags.extend(f.tags.iter().cloned());
                    let serial = if plan.cfg.custom_which {
                        name.contains("_SER")
                    } else {
                        tags.iter().any(|t| t == "serial")
                    };
                    if plan.cfg.tags_filter.as_deref().is_some_and(|expr| !crate::plan::eval_tag_expr(expr, &tags)) {
                        continue; // rejected by `--tags`: never handed to the runner
                    }
                    let allow_skipped = tags.iter().any(|t| t == "allow.skipped");
                    let known_delay = if let Some(map) = &plan.cfg.closure_retry {
                        Some(map.get(&name).and_then(|(_, a)| *a))
                    } else {
                        // (the expanded scenario's own tags include those of its Examples block)
                        let mut own: Vec<String> = s.tags.clone();
                        if s.examples.is_some() {
                            own.extend(s.examples_tags.iter().cloned());
                        }
                        resolved_delay(plan, &own, rule.map(|r| r.tags.as_slice()), &f.tags)
                    };
                    n_sc += 1;
                    n_steps += s.steps.len();
                    feature_scenarios.entry(fi).or_default().push(name.clone());
                    scenarios.insert(
                        name.clone(),
                        ScInfo {
                            name,
                            feature: f.name.clone(),
                            feature_idx: fi,
                            rule: rule.map(|r| r.name.clone()),
                            steps,
                            own_steps: s.steps.len(),
                            tags_inherited: tags,
                            serial,
                            allow_skipped,
                            known_delay,
                        },
                    );
                }
            };
            for s in &f.scenarios {
                add(s, None, f);
            }
            for (ri, r) in f.rules.iter().enumerate() {
                // scenarios the run's filter rejects are never handed to the runner (the rule stays)
                if plan.filtered_rules.contains(&(fi, ri)) {
                    continue;
                }
                for s in &r.scenarios {
                    add(s, Some(r), f);
                }
            }
            feature_counts.insert(fi, (f.rules.len(), n_sc, n_steps));
        }
        Self { scenarios, feature_counts, feature_scenarios }
    }
}

/// One scenario attempt as found in the raw stream.
#[derive(Clone, Debug)]
pub struct Attempt {
    pub key: (usize, usize, usize, Option<(usize, usize)>),
    pub scenario: String,
    pub feature: String,
    pub rule: Option<String>,
    pub retries: Option<(usize, usize)>,
    /// Indices into `History::events` (Log events excluded from `seq`, kept in `logs`).
    pub seq: Vec<usize>,
    pub logs: Vec<usize>,
    pub started: Option<usize>,
    pub finished: Option<usize>,
}

impl Attempt {
    pub fn failed(&self, evs: &[Ev]) -> bool {
        self.seq.iter().any(|i| matches!(evs[*i].k, K::StepFailed { .. } | K::HookFailed(..)))
    }
    pub fn skipped(&self, evs: &[Ev]) -> bool {
        self.seq.iter().any(|i| matches!(evs[*i].k, K::StepSkipped { .. }))
    }
    pub fn left(&self) -> usize {
        self.retries.map_or(0, |r| r.1)
    }
    pub fn current(&self) -> usize {
        self.retries.map_or(0, |r| r.0)
    }
}

pub fn attempts(evs: &[Ev]) -> Vec<Attempt> {
    let mut order: Vec<Attempt> = Vec::new();
    let mut idx: BTreeMap<(usize, usize, usize, Option<(usize, usize)>), usize> = BTreeMap::new();
    for (i, e) in evs.iter().enumerate() {
        let Some(key) = e.attempt_key() else { continue };
        let ai = *idx.entry(key).or_insert_with(|| {
            order.push(Attempt {
                key,
                scenario: e.scenario.clone().unwrap_or_default(),
                feature: e.feature.clone().unwrap_or_default(),
                rule: e.rule.clone(),
                retries: e.retries,
                seq: Vec::new(),
                logs: Vec::new(),
                started: None,
                finished: None,
            });
            order.len() - 1
        });
        let a = &mut order[ai];
        if matches!(e.k, K::Log(_)) {
            a.logs.push(i);
            continue;
        }
        if matches!(e.k, K::ScStarted) && a.started.is_none() {
            a.started = Some(i);
        }
        if matches!(e.k, K::ScFinished) {
            a.finished = Some(i);
        }
        a.seq.push(i);
    }
    order
}

/// Abstract expected event of an attempt.
#[derive(Clone, Debug, PartialEq, Eq)]
pub enum X {
    ScStarted,
    ScFinished,
    HookStarted(Hk),
    HookPassed(Hk),
    HookFailed { hk: Hk, token: String },
    StepStarted { text: String, bg: bool },
    StepPassed { text: String, bg: bool },
    StepSkipped { text: String, bg: bool },
    StepFailed { text: String, bg: bool, err: ErrK, token: Option<String> },
}

pub fn project(e: &Ev) -> X {
    let text = || e.step.as_ref().map(|s| s.text.clone()).unwrap_or_default();
    match &e.k {
        K::ScStarted => X::ScStarted,
        K::ScFinished => X::ScFinished,
        K::HookStarted(h) => X::HookStarted(*h),
        K::HookPassed(h) => X::HookPassed(*h),
        K::HookFailed(h, p, _) => X::HookFailed { hk: *h, token: token_of(p).unwrap_or_else(|| format!("?{p}")) },
        K::StepStarted { bg } => X::StepStarted { text: text(), bg: *bg },
        K::StepPassed { bg } => X::StepPassed { text: text(), bg: *bg },
        K::StepSkipped { bg } => X::StepSkipped { text: text(), bg: *bg },
        K::StepFailed { bg, err, payload, .. } => X::StepFailed {
            text: text(),
            bg: *bg,
            err: err.clone(),
            token: if matches!(err, ErrK::Panic) { Some(token_of(payload).unwrap_or_else(|| format!("?{payload}"))) } else { None },
        },
        other => panic!("harness: project() on non-scenario event {other:?}"),
    }
}

/// Faults attributed to one attempt: token -> callback entry that fired it.
pub struct Faults<'a> {
    pub by_token: BTreeMap<String, &'a CbEntry>,
    /// token -> how many callbacks of the same site ran on the same World before the one that fired
    /// it (a scenario may hold the same step more than once)
    pub occurrence: BTreeMap<String, usize>,
}

impl<'a> Faults<'a> {
    pub fn new(cb: &'a [CbEntry]) -> Self {
        let mut by_token = BTreeMap::new();
        let mut occurrence = BTreeMap::new();
        for c in cb {
            if let Some(t) = &c.token {
                by_token.insert(t.clone(), c);
                let occ = if c.world.is_some() && c.kind == CbKind::Step {
                    cb.iter().filter(|d| d.kind == c.kind && d.site == c.site && d.world == c.world && d.enter < c.enter).count()
                } else {
                    0
                };
                occurrence.insert(t.clone(), occ);
            }
        }
        Self { by_token, occurrence }
    }
}

/// Result of interpreting one attempt.
pub struct Expected {
    pub seq: Vec<X>,
    /// Sites (in order) whose user callback the model says ran on the attempt's World.
    pub callbacks: Vec<String>,
    pub world_created: bool,
    pub world_new_called: bool,
    pub failed: bool,
    pub skipped: bool,
    /// Rendered `ScenarioFinished` the after hook must receive.
    pub finished_arg: String,
    /// Tokens observed in the attempt that the model could not place.
    pub unplaced: Vec<String>,
}

/// Sequential interpreter of one attempt. `tokens` are the fault tokens found in the
/// attempt's own Failed events; `faults` resolves them to what was injected where.
pub fn expect_attempt(
    plan: &Plan,
    sc: &ScInfo,
    tokens: &BTreeSet<String>,
    faults: &Faults<'_>,
) -> Expected {
    let mut remaining: BTreeSet<String> = tokens.clone();
    let mut take = |kind: CbKind, site: &str, occ: usize| -> Option<(String, Outcome)> {
        let found = remaining
            .iter()
            .find(|t| faults.by_token.get(*t).is_some_and(|c| c.kind == kind && c.site == site) && faults.occurrence.get(*t).copied().unwrap_or(0) == occ)
            .cloned();
        found.map(|t| {
            remaining.remove(&t);
            let o = faults.by_token[&t].outcome;
            (t, o)
        })
    };
    let mut seq = vec![X::ScStarted];
    let mut callbacks = Vec::new();
    let mut world = false;
    let mut world_new_called = false;
    let mut deferred: Option<X> = None;
    let mut skipped = false;
    let mut finished_arg = "StepPassed".to_owned();
    let payload_text = |tok: &str, o: Outcome, world_err_prefix: &str| -> String {
        match o {
            Outcome::Err => format!("{world_err_prefix}werr {tok}"),
            Outcome::PanicAny => format!("custom {tok}"),
            _ => format!("boom {tok}"),
        }
    };

    if plan.before_hook {
        seq.push(X::HookStarted(Hk::Before));
        world_new_called = true;
        if let Some((t, o)) = take(CbKind::WorldNew, crate::plan::SITE_WORLD, 0) {
            finished_arg = format!("BeforeHookFailed({})", payload_text(&t, o, "failed to initialize World: "));
            deferred = Some(X::HookFailed { hk: Hk::Before, token: t });
        } else {
            world = true;
            callbacks.push(site_before(&sc.name));
            if let Some((t, o)) = take(CbKind::Before, &site_before(&sc.name), 0) {
                finished_arg = format!("BeforeHookFailed({})", payload_text(&t, o, ""));
                deferred = Some(X::HookFailed { hk: Hk::Before, token: t });
            } else {
                seq.push(X::HookPassed(Hk::Before));
            }
        }
    }
    let mut seen_steps: BTreeMap<&str, usize> = BTreeMap::new();
    if deferred.is_none() {
        for (text, def, bg) in &sc.steps {
            seq.push(X::StepStarted { text: text.clone(), bg: *bg });
            match def {
                Def::None => {
                    seq.push(X::StepSkipped { text: text.clone(), bg: *bg });
                    skipped = true;
                    finished_arg = "StepSkipped".into();
                    break;
                }
                Def::Two => {
                    finished_arg = "StepFailed(Ambiguous(2))".into();
                    deferred = Some(X::StepFailed {
                        text: text.clone(),
                        bg: *bg,
                        err: ErrK::Ambiguous(2),
                        token: None,
                    });
                    break;
                }
                Def::One => {
                    if !world {
                        world_new_called = true;
                        if let Some((t, o)) = take(CbKind::WorldNew, crate::plan::SITE_WORLD, 0) {
                            finished_arg =
                                format!("StepFailed(Panic({}))", payload_text(&t, o, "failed to initialize `World`: "));
                            deferred = Some(X::StepFailed {
                                text: text.clone(),
                                bg: *bg,
                                err: ErrK::Panic,
                                token: Some(t),
                            });
                            break;
                        }
                        world = true;
                    }
                    callbacks.push(site_step(text));
                    let occ = *seen_steps.entry(text.as_str()).and_modify(|n| *n += 1).or_insert(0);
                    if let Some((t, o)) = take(CbKind::Step, &site_step(text), occ) {
                        finished_arg = format!("StepFailed(Panic({}))", payload_text(&t, o, ""));
                        deferred = Some(X::StepFailed {
                            text: text.clone(),
                            bg: *bg,
                            err: ErrK::Panic,
                            token: Some(t),
                        });
                        break;
                    }
                    seq.push(X::StepPassed { text: text.clone(), bg: *bg });
                }
            }
        }
    }
    let mut failed = deferred.is_some();
    if let Some(d) = deferred {
        seq.push(d);
    }
    if plan.after_hook {
        seq.push(X::HookStarted(Hk::After));
        callbacks.push(site_after(&sc.name));
        if let Some((t, _)) = take(CbKind::After, &site_after(&sc.name), 0) {
            seq.push(X::HookFailed { hk: Hk::After, token: t });
            failed = true;
        } else {
            seq.push(X::HookPassed(Hk::After));
        }
    }
    seq.push(X::ScFinished);
    Expected {
        seq,
        callbacks,
        world_created: world,
        world_new_called,
        failed,
        skipped,
        finished_arg,
        unplaced: remaining.into_iter().collect(),
    }
}

/// Tokens carried by the Failed events of an attempt.
pub fn attempt_tokens(a: &Attempt, evs: &[Ev]) -> BTreeSet<String> {
    let mut s = BTreeSet::new();
    for i in &a.seq {
        match &evs[*i].k {
            K::HookFailed(_, p, _) => {
                if let Some(t) = token_of(p) {
                    s.insert(t);
                }
            }
            K::StepFailed { payload, .. } => {
                if let Some(t) = token_of(payload) {
                    s.insert(t);
                }
            }
            _ => {}
        }
    }
    s
}

/// Everything the world-A oracles need, computed once per run.
pub struct Analysis<'a> {
    pub plan: &'a Plan,
    pub h: &'a History,
    pub st: Static,
    pub attempts: Vec<Attempt>,
    pub faults: Faults<'a>,
    /// Attempts per scenario name, in stream order.
    /// Attempt indices per scenario: (name, feature pointer id) - the same feature may be handed to
    /// the runner twice, and then two scenarios carry one name.
    pub by_scenario: BTreeMap<(String, usize), Vec<usize>>,
    /// Scenario names that occur under more than one feature instance ("twins").
    pub twin_names: BTreeSet<String>,
    /// Index in `h.events` of the Finished of the first finally failed attempt (fail-fast trip point).
    pub first_final_failure: Option<usize>,
}

impl<'a> Analysis<'a> {
    pub fn new(plan: &'a Plan, h: &'a History) -> Self {
        let st = Static::new(plan);
        let attempts = attempts(&h.events);
        let mut by_scenario: BTreeMap<(String, usize), Vec<usize>> = BTreeMap::new();
        for (i, a) in attempts.iter().enumerate() {
            by_scenario.entry((a.scenario.clone(), a.key.0)).or_default().push(i);
        }
        let mut first_final_failure = None;
        for a in &attempts {
            if a.failed(&h.events) && a.left() == 0 {
                if let Some(f) = a.finished {
                    first_final_failure = Some(first_final_failure.map_or(f, |x: usize| x.min(f)));
                }
            }
        }
        let mut seen_names: BTreeSet<&String> = BTreeSet::new();
        let mut twin_names = BTreeSet::new();
        for (name, _) in by_scenario.keys() {
            if !seen_names.insert(name) {
                twin_names.insert(name.clone());
            }
        }
        Self { plan, h, st, attempts, faults: Faults::new(&h.cb), by_scenario, twin_names, first_final_failure }
    }

    pub fn complete(&self) -> bool {
        self.h.end == crate::core::RunEnd::Finished && self.h.stream_ended
    }
}
