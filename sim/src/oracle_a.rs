//! Oracles over world-A histories: C02–C10.

use std::collections::{BTreeMap, BTreeSet};

use crate::{
    core::RunEnd,
    model::{Analysis, Violation, X, attempt_tokens, expect_attempt, project},
    plan::{Outcome, ParserItemKind},
    record::{Ev, K},
    world::{CbEntry, CbKind},
};

fn v(prop: &str, code: &str, msg: String) -> Violation {
    Violation::new(prop, code, msg)
}

// ---------------------------------------------------------------------------------------------
// C02 — canonical per-attempt event sequence

pub fn c02(a: &Analysis<'_>, out: &mut Vec<Violation>) {
    let evs = &a.h.events;
    for at in &a.attempts {
        if at.finished.is_none() && !a.complete() && a.h.end != crate::core::RunEnd::Panicked {
            continue; // run aborted by the step cap / a deadlock (reported by C04)
        }
        // (a run that ended because a panic escaped the runner is not excused: the attempts it cut
        // short lack their result / after-hook / Finished events, which is what this property forbids)
        let Some(sc) = a.st.scenarios.get(&at.scenario) else {
            out.push(v("C02", "unknown-scenario", format!("events for unknown scenario {:?}", at.scenario)));
            continue;
        };
        let toks = attempt_tokens(at, evs);
        let exp = expect_attempt(a.plan, sc, &toks, &a.faults);
        let got: Vec<X> = at.seq.iter().map(|i| project(&evs[*i])).collect();
        if got != exp.seq {
            let pos = got.iter().zip(exp.seq.iter()).position(|(g, e)| g != e).unwrap_or(got.len().min(exp.seq.len()));
            let what = match (got.get(pos), exp.seq.get(pos)) {
                (Some(g), Some(e)) => format!("{}-instead-of-{}", xtag(g), xtag(e)),
                (Some(g), None) => format!("extra-{}", xtag(g)),
                (None, Some(e)) => format!("missing-{}", xtag(e)),
                (None, None) => "?".into(),
            };
            out.push(
                v(
                    "C02",
                    "sequence-mismatch",
                    format!(
                        "attempt {} {:?}: at position {pos} got {:?}, expected {:?}\n got: {:?}\n exp: {:?}",
                        at.scenario,
                        at.retries,
                        got.get(pos),
                        exp.seq.get(pos),
                        got,
                        exp.seq
                    ),
                )
                .attr("what", what),
            );
        }
        // "... then Finished, with no event of that attempt after it" - Log events included (tracing runs)
        if let Some(f) = at.finished {
            if let Some(l) = at.logs.iter().find(|l| **l > f) {
                out.push(v("C02", "event-after-finished", format!("attempt {} {:?}: {} follows its Finished event (#{f})", at.scenario, at.retries, evs[*l].short())).attr("kind", "Log"));
            }
        }
        if let Some(st) = at.started {
            if let Some(l) = at.logs.iter().find(|l| **l < st) {
                out.push(v("C02", "event-before-started", format!("attempt {} {:?}: {} precedes its Started event (#{st})", at.scenario, at.retries, evs[*l].short())).attr("kind", "Log"));
            }
        }
        if !exp.unplaced.is_empty() {
            out.push(
                v("C02", "misplaced-failure", format!("attempt {} {:?}: failure tokens {:?} do not belong to this attempt's callbacks", at.scenario, at.retries, exp.unplaced)),
            );
        }
    }
}

fn xtag(x: &X) -> &'static str {
    match x {
        X::ScStarted => "ScStarted",
        X::ScFinished => "ScFinished",
        X::HookStarted(_) => "HookStarted",
        X::HookPassed(_) => "HookPassed",
        X::HookFailed { .. } => "HookFailed",
        X::StepStarted { .. } => "StepStarted",
        X::StepPassed { .. } => "StepPassed",
        X::StepSkipped { .. } => "StepSkipped",
        X::StepFailed { .. } => "StepFailed",
    }
}

// ---------------------------------------------------------------------------------------------
// C03 — framing

pub fn c03(a: &Analysis<'_>, out: &mut Vec<Violation>) {
    if !a.complete() {
        return;
    }
    let evs = &a.h.events;
    let n = evs.len();
    let pos_of = |pred: &dyn Fn(&K) -> bool| -> Vec<usize> {
        evs.iter().enumerate().filter(|(_, e)| pred(&e.k)).map(|(i, _)| i).collect()
    };
    let started = pos_of(&|k| matches!(k, K::RunStarted));
    let finished = pos_of(&|k| matches!(k, K::RunFinished));
    let pf = pos_of(&|k| matches!(k, K::ParsingFinished { .. }));
    let perr = pos_of(&|k| matches!(k, K::ParseError(_)));
    let first_feature_ev = evs.iter().position(|e| e.feature.is_some());

    if started.len() != 1 {
        out.push(v("C03", "run-started-count", format!("{} run-Started events", started.len())));
    } else if let Some(ff) = first_feature_ev {
        if started[0] > ff {
            out.push(v("C03", "run-started-late", format!("run-Started at {} after first feature event at {ff}", started[0])));
        }
    }
    if finished.len() != 1 || finished.last() != Some(&(n.wrapping_sub(1))) {
        out.push(v("C03", "run-finished", format!("run-Finished positions {finished:?} of {n} events")));
    }
    if a.h.items_after_finished > 0 {
        out.push(v("C03", "items-after-finished", format!("{} items after run-Finished", a.h.items_after_finished)));
    }

    // parser errors: exactly the delivered ones, in order, once each
    let delivered_err_tokens: Vec<String> = a
        .h
        .parser
        .delivered
        .iter()
        .filter(|(_, _, is_err)| *is_err)
        .filter_map(|(i, _, _)| match &a.plan.items[*i].kind {
            ParserItemKind::ErrReading(t) | ParserItemKind::ErrExpansion(t) => Some(t.clone()),
            ParserItemKind::Feature(_) => None,
        })
        .collect();
    let got_err_tokens: Vec<String> = perr
        .iter()
        .map(|i| match &evs[*i].k {
            K::ParseError(s) => delivered_err_tokens.iter().find(|t| contains_token(s, t)).cloned().unwrap_or_else(|| format!("?{s}")),
            _ => unreachable!(),
        })
        .collect();
    if got_err_tokens != delivered_err_tokens {
        out.push(v("C03", "parser-errors", format!("stream carries errors {got_err_tokens:?}, parser delivered {delivered_err_tokens:?}")));
    }

    // ParsingFinished: exactly one, after the last error, counts == what was handed over
    if pf.len() != 1 {
        out.push(v("C03", "parsing-finished-count", format!("{} ParsingFinished events", pf.len())));
    } else {
        if perr.last().is_some_and(|l| *l > pf[0]) {
            out.push(v("C03", "parsing-finished-early", "ParsingFinished precedes a parser error".to_string()));
        }
        let (mut f, mut r, mut s, mut t, mut e) = (0, 0, 0, 0, 0);
        for (i, _, is_err) in &a.h.parser.delivered {
            if *is_err {
                e += 1;
            } else if let ParserItemKind::Feature(fi) = &a.plan.items[*i].kind {
                let (nr, ns, nt) = a.st.feature_counts[fi];
                f += 1;
                r += nr;
                s += ns;
                t += nt;
            }
        }
        if let K::ParsingFinished { features, rules, scenarios, steps, parser_errors } = &evs[pf[0]].k {
            if (*features, *rules, *scenarios, *steps, *parser_errors) != (f, r, s, t, e) {
                out.push(v(
                    "C03",
                    "parsing-finished-counts",
                    format!("ParsingFinished says f{features} r{rules} s{scenarios} t{steps} e{parser_errors}, parser handed over f{f} r{r} s{s} t{t} e{e}"),
                ));
            }
        }
    }

    // feature / rule brackets
    #[derive(Default)]
    struct Br {
        started: Vec<usize>,
        finished: Vec<usize>,
        first_sc: Option<usize>,
        last_sc: Option<usize>,
    }
    let mut feats: BTreeMap<usize, Br> = BTreeMap::new();
    let mut rules: BTreeMap<(usize, usize), Br> = BTreeMap::new();
    for (i, e) in evs.iter().enumerate() {
        if e.fptr == 0 {
            continue;
        }
        let fb = feats.entry(e.fptr).or_default();
        match &e.k {
            K::FeatureStarted => fb.started.push(i),
            K::FeatureFinished => fb.finished.push(i),
            K::RuleStarted => rules.entry((e.fptr, e.rptr)).or_default().started.push(i),
            K::RuleFinished => rules.entry((e.fptr, e.rptr)).or_default().finished.push(i),
            k if k.is_scenario_event() => {
                fb.first_sc.get_or_insert(i);
                fb.last_sc = Some(i);
                if e.rptr != 0 {
                    let rb = rules.entry((e.fptr, e.rptr)).or_default();
                    rb.first_sc.get_or_insert(i);
                    rb.last_sc = Some(i);
                }
            }
            _ => {}
        }
    }
    let mut check = |what: &str, b: &Br, inside: Option<(usize, usize)>, name: String| {
        match (b.first_sc, b.last_sc) {
            (Some(first), Some(last)) => {
                if b.started.len() != 1 || b.finished.len() != 1 {
                    out.push(
                        v("C03", "bracket-count", format!("{what} {name}: {} Started, {} Finished", b.started.len(), b.finished.len()))
                            .attr("what", what),
                    );
                    return;
                }
                if b.started[0] > first || b.finished[0] < last {
                    out.push(
                        v("C03", "bracket-order", format!("{what} {name}: Started@{} Finished@{} but scenario events span {first}..{last}", b.started[0], b.finished[0]))
                            .attr("what", what),
                    );
                }
                if let Some((fs, ff)) = inside {
                    if b.started[0] < fs || b.finished[0] > ff {
                        out.push(v("C03", "rule-outside-feature", format!("rule {name}: bracket {}..{} outside feature bracket {fs}..{ff}", b.started[0], b.finished[0])));
                    }
                }
            }
            _ => {
                if !b.started.is_empty() || !b.finished.is_empty() {
                    out.push(v("C03", "bracket-without-scenarios", format!("{what} {name}: bracket events but no scenario started")).attr("what", what));
                }
            }
        }
    };
    for (fp, b) in &feats {
        let name = evs.iter().find(|e| e.fptr == *fp).and_then(|e| e.feature.clone()).unwrap_or_default();
        check("feature", b, None, name);
    }
    for ((fp, rp), b) in &rules {
        let name = evs.iter().find(|e| e.fptr == *fp && e.rptr == *rp).and_then(|e| e.rule.clone()).unwrap_or_default();
        let inside = feats.get(fp).and_then(|f| match (f.started.first(), f.finished.first()) {
            (Some(s), Some(e)) => Some((*s, *e)),
            _ => None,
        });
        check("rule", b, inside, name);
    }
    // every attempt Started has a Finished
    for at in &a.attempts {
        if at.started.is_some() && at.finished.is_none() {
            out.push(v("C03", "attempt-unfinished", format!("attempt {} {:?} has no Finished", at.scenario, at.retries)));
        }
    }
}

fn contains_token(hay: &str, tok: &str) -> bool {
    // token followed by a non-digit (perr1 vs perr10)
    let mut rest = hay;
    while let Some(i) = rest.find(tok) {
        let after = &rest[i + tok.len()..];
        if !after.chars().next().is_some_and(|c| c.is_ascii_digit()) {
            return true;
        }
        rest = after;
    }
    false
}

// ---------------------------------------------------------------------------------------------
// C04 — exactly the supplied scenarios; termination

pub fn c04(a: &Analysis<'_>, out: &mut Vec<Violation>) {
    match a.h.end {
        RunEnd::Finished => {}
        RunEnd::IdleSpin => {
            let waiting_parser = a.h.parser.finished_at.is_none();
            out.push(
                v(
                    "C04",
                    "idle-spin",
                    format!(
                        "execute()'s idle branch iterated > {} times inside one poll without yielding (parser finished: {}, delivered {} of {} items)",
                        crate::core::IDLE_TICK_CAP,
                        !waiting_parser,
                        a.h.parser.delivered.len(),
                        a.plan.items.len()
                    ),
                )
                .attr("waiting", if waiting_parser { "parser" } else { "other" }),
            );
            return;
        }
        RunEnd::Deadlock => {
            out.push(v("C04", "deadlock", "root future pending, not woken and nothing scheduled: lost wake-up".to_string()));
            return;
        }
        RunEnd::Livelock => {
            out.push(v("C04", "livelock", "root keeps waking itself without progress and nothing is scheduled".to_string()));
            return;
        }
        RunEnd::PollCap => {
            out.push(v("C04", "poll-cap", "run did not end within the poll cap".to_string()));
            return;
        }
        RunEnd::Panicked => {
            out.push(v("C04", "panic-escaped", format!("a panic escaped the event stream: {:?}", a.h.escaped_panic)));
            return;
        }
    }
    if !a.h.stream_ended {
        out.push(v("C04", "no-stream-end", "root finished without the stream returning None".to_string()));
        return;
    }
    // supplied set (observed at the parser seam)
    let mut supplied: BTreeSet<String> = BTreeSet::new();
    for (i, _, is_err) in &a.h.parser.delivered {
        if *is_err {
            continue;
        }
        if let ParserItemKind::Feature(fi) = &a.plan.items[*i].kind {
            // (by the feature's own list: a twin of the feature shares its scenarios' names)
            supplied.extend(a.st.feature_scenarios.get(fi).into_iter().flatten().cloned());
        }
    }
    let started: BTreeSet<String> = a.attempts.iter().filter(|t| t.started.is_some()).map(|t| t.scenario.clone()).collect();
    let extra: Vec<&String> = started.difference(&supplied).collect();
    if !extra.is_empty() {
        out.push(v("C04", "not-supplied-ran", format!("scenarios ran that the parser never handed over: {extra:?}")));
    }
    if !a.plan.cfg.fail_fast() {
        let missing: Vec<&String> = supplied.difference(&started).collect();
        if !missing.is_empty() {
            out.push(v("C04", "supplied-not-run", format!("scenarios handed to the runner but never started: {missing:?}")));
        }
        if a.h.parser.delivered.len() != a.plan.items.len() {
            out.push(v("C04", "parser-not-drained", format!("parser delivered {} of {} items", a.h.parser.delivered.len(), a.plan.items.len())));
        }
    }
}

// ---------------------------------------------------------------------------------------------
// helpers shared by C05–C09

/// Callback entries attributed to scenario `name` (hooks and own steps identify it).
fn scenario_cbs<'b>(a: &'b Analysis<'_>, name: &str) -> Vec<&'b CbEntry> {
    let sc = &a.st.scenarios[name];
    let own: BTreeSet<String> = sc.steps.iter().filter(|(_, _, bg)| !*bg).map(|(t, _, _)| crate::plan::site_step(t)).collect();
    // (position-less plans may use one step text in two scenarios: a callback of such a step cannot be
    // attributed by its site, so it is not attributed at all)
    let elsewhere: BTreeSet<String> = a
        .st
        .scenarios
        .values()
        .filter(|o| o.name != name)
        .flat_map(|o| o.steps.iter().map(|(t, _, _)| crate::plan::site_step(t)))
        .collect();
    let own: BTreeSet<String> = own.difference(&elsewhere).cloned().collect();
    a.h.cb
        .iter()
        .filter(|c| match c.kind {
            CbKind::Before | CbKind::After => c.scenario.as_deref() == Some(name),
            CbKind::Step => own.contains(&c.site),
            CbKind::WorldNew => false,
        })
        .collect()
}

fn fail_fast_tripped(a: &Analysis<'_>) -> bool {
    a.plan.cfg.fail_fast() && (a.first_final_failure.is_some() || a.h.events.iter().any(|e| matches!(e.k, K::ParseError(_))))
}

// ---------------------------------------------------------------------------------------------
// C05 — retries

/// Who is retried at all: a scenario has a retry budget iff a `@retry...` tag is in reach (its own, its
/// rule's, its feature's) or - no such tag - the retry tag filter holds over its inherited tags, or,
/// without a filter, a retry count or delay is configured (a `retry_options` closure replaces all of that).
pub fn retry_eligibility(a: &Analysis<'_>, out: &mut Vec<Violation>) {
if a.plan.cfg.closure_retry.is_none() {
    let cfg = &a.plan.cfg;
    let filter = cfg.cli_retry_filter.as_ref().or(cfg.builder_retry_filter.as_ref());
    let configured = cfg.cli_retry.or(cfg.builder_retries).is_some() || cfg.cli_retry_after_ns.or(cfg.builder_retry_after_ns).is_some();
    for ((name, _), idxs) in &a.by_scenario {
        let (Some(sc), Some(first)) = (a.st.scenarios.get(name), idxs.first().map(|i| &a.attempts[*i])) else { continue };
        let tagged = sc.tags_inherited.iter().any(|t| t.starts_with("retry"));
        let matched = filter.map_or(configured, |expr| crate::plan::eval_tag_expr(expr, &sc.tags_inherited));
        let expected = tagged || matched;
        if first.retries.is_some() != expected {
            out.push(
                v(
                    "C05",
                    "retry-eligibility",
                    format!(
                        "{name}: events carry retries {:?}, but the scenario {} (inherited tags {:?}, retry filter {filter:?}, count or delay configured: {configured})",
                        first.retries,
                        if expected { "must have a retry budget" } else { "must have none" },
                        sc.tags_inherited
                    ),
                )
                .attr("expected", expected),
            );
            break;
        }
    }
}
}

pub fn c05(a: &Analysis<'_>, out: &mut Vec<Violation>) {
    if a.h.end == crate::core::RunEnd::Panicked {
        // A panic that escapes the runner is a failure of user code that was never turned into a
        // failed attempt, so it cannot be retried either. Attributed only when every attempt the
        // panic cut short still had retries left (whichever of them ran the panicking code).
        let cut: Vec<&crate::model::Attempt> = a.attempts.iter().filter(|t| t.started.is_some() && t.finished.is_none()).collect();
        if !cut.is_empty() && cut.iter().all(|t| t.left() > 0) {
            out.push(v(
                "C05",
                "retry-lost-to-escaped-panic",
                format!(
                    "a panic escaped the runner ({:?}) while {:?} were in progress, all with retries left: the failed attempt is never retried",
                    a.h.escaped_panic,
                    cut.iter().map(|t| (&t.scenario, t.retries)).collect::<Vec<_>>()
                ),
            ));
        }
        return;
    }
    if !a.complete() {
        return;
    }
    let evs = &a.h.events;
    let tripped = fail_fast_tripped(a);
    for ((name, _), idxs) in &a.by_scenario {
        let ats: Vec<&crate::model::Attempt> = idxs.iter().map(|i| &a.attempts[*i]).collect();
        let Some(first) = ats.first() else { continue };
        let budget = first.retries.map(|r| r.0 + r.1);
        // numbering
        for (k, at) in ats.iter().enumerate() {
            let want = budget.map(|n| (k, n.saturating_sub(k)));
            if first.retries.is_none() {
                if k > 0 || at.retries.is_some() {
                    out.push(v("C05", "retry-without-budget", format!("{name}: attempt {k} {:?} although the first attempt carries no retries", at.retries)));
                }
            } else if at.retries != want || budget.is_some_and(|n| k > n) {
                out.push(v("C05", "retry-numbering", format!("{name}: attempt #{k} carries {:?}, expected {want:?} (budget {budget:?})", at.retries)).attr("k", k.min(3)));
            }
        }
        // one attempt per retry counter: an attempt dispatched twice shows as two Started events
        for at in &ats {
            let n = at.seq.iter().filter(|i| matches!(evs[**i].k, K::ScStarted)).count();
            if n != 1 {
                out.push(v("C05", "attempt-started-twice", format!("{name}: attempt {:?} has {n} Started events", at.retries)));
            }
        }
        // re-run exactly on failure within budget
        for (k, at) in ats.iter().enumerate() {
            let failed = at.failed(evs);
            let has_next = k + 1 < ats.len();
            let should = failed && at.left() > 0;
            if has_next && !should {
                out.push(
                    v("C05", "unexpected-retry", format!("{name}: attempt {:?} (failed={failed}, skipped={}) was followed by another attempt", at.retries, at.skipped(evs)))
                        .attr("prev", if failed { "failed-no-budget" } else if at.skipped(evs) { "skipped" } else { "passed" }),
                );
            }
            if !has_next && should && !tripped {
                out.push(v("C05", "missing-retry", format!("{name}: attempt {:?} failed with retries left but was not retried", at.retries)));
            }
        }
        // sequential
        for w in ats.windows(2) {
            let (p, n) = (w[0], w[1]);
            let (Some(pf), Some(ns)) = (p.finished, n.seq.first().copied()) else { continue };
            if ns < pf {
                out.push(v("C05", "attempts-overlap", format!("{name}: attempt {:?} begins at event {ns} before attempt {:?} finished at {pf}", n.retries, p.retries)));
            }
        }
        // fresh World per attempt & delay, via the callback log (which names scenarios, not feature
        // instances: skipped for a scenario whose feature was handed over twice)
        if a.twin_names.contains(name) {
            continue;
        }
        let cbs = scenario_cbs(a, name);
        let mut worlds_per_attempt: Vec<BTreeSet<u64>> = Vec::new();
        for at in &ats {
            let (Some(s), Some(f)) = (at.started, at.finished) else { continue };
            let (ts, tf) = (evs[s].at, evs[f].at);
            let mine: Vec<&&CbEntry> = cbs.iter().filter(|c| c.enter > ts && c.enter < tf).collect();
            worlds_per_attempt.push(mine.iter().filter_map(|c| c.world).collect());
            if let Some(first_cb) = mine.iter().filter(|c| c.world.is_some()).min_by_key(|c| c.enter) {
                // the first callback of an attempt on its World must see a virgin World unless a
                // background step ran before it (then counter == number of earlier callbacks)
                let (counter, trail) = first_cb.counter_on_entry.unwrap_or((0, 0));
                if counter != trail {
                    out.push(v("C05", "world-not-fresh", format!("{name}: first callback of attempt {:?} saw World counter {counter} with trail {trail}", at.retries)));
                }
            }
        }
        for i in 0..worlds_per_attempt.len() {
            for j in (i + 1)..worlds_per_attempt.len() {
                let shared: Vec<&u64> = worlds_per_attempt[i].intersection(&worlds_per_attempt[j]).collect();
                if !shared.is_empty() {
                    out.push(v("C05", "world-reused", format!("{name}: World(s) {shared:?} seen by attempts #{i} and #{j}")));
                }
            }
        }
        // delay
        let sc = &a.st.scenarios[name];
        if let Some(Some(delay)) = sc.known_delay {
            for w in ats.windows(2) {
                let (p, n) = (w[0], w[1]);
                let (Some(pf), Some(ns)) = (p.finished, n.started) else { continue };
                let gap = evs[ns].at.saturating_sub(evs[pf].at);
                if gap < delay {
                    out.push(
                        v("C05", "retry-too-early", format!("{name}: attempt {:?} started {gap} ns after the previous one finished, delay is {delay} ns", n.retries))
                            .attr("serial", sc.serial),
                    );
                }
                // callbacks too
                let (ts, tf) = (evs[ns].at, n.finished.map_or(u64::MAX, |f| evs[f].at));
                if let Some(c) = cbs.iter().filter(|c| c.enter > evs[pf].at && c.enter < tf && c.enter >= ts.min(tf)).min_by_key(|c| c.enter) {
                    if c.enter.saturating_sub(evs[pf].at) < delay {
                        out.push(v("C05", "retry-callback-too-early", format!("{name}: user code of attempt {:?} ran {} ns after the previous attempt finished, delay {delay}", n.retries, c.enter - evs[pf].at)));
                    }
                }
            }
        }
    }
    // "... whose events carry current=k, left=N-k on attempt k" - Log events (tracing collector) included: a log
    // delivered while attempt j of a scenario is in progress must not carry the counter of its attempt k != j
    for idxs in a.by_scenario.values() {
        if idxs.len() < 2 {
            continue;
        }
        'sc: for &k in idxs {
            let ak = &a.attempts[k];
            for &l in &ak.logs {
                for &j in idxs {
                    let aj = &a.attempts[j];
                    if j != k && aj.started.is_some_and(|s| s < l) && aj.finished.is_none_or(|f| l < f) {
                        out.push(v(
                            "C05",
                            "log-carries-counter-of-another-attempt",
                            format!("{}: {} arrives while attempt {:?} is in progress, carrying the counter {:?}", ak.scenario, evs[l].short(), aj.retries, ak.retries),
                        ));
                        break 'sc;
                    }
                }
            }
        }
    }
    retry_eligibility(a, out);
    // "... while other scenarios keep running meanwhile": a retry waiting for its delay must not hold
    // ready concurrent scenarios back (same quiescent-point argument as C06's work conservation,
    // restricted to points at which some retry's known delay cannot have elapsed)
    if let Some(u) = first_unfilled(a, true) {
        out.push(v(
            "C05",
            "others-blocked-while-retry-waits",
            format!(
                "after completion at event {}: retry of {:?} is waiting for its delay, {} in flight, {} concurrent scenarios ready, expected {} in flight at the next quiescent point (event count {})",
                u.after_event,
                u.retry_waiting,
                u.in_flight,
                u.ready,
                u.want,
                u.q_events
            ),
        ));
    }
}

/// Work conservation at the first quiescent point after each completion: the first point at which
/// fewer attempts are in flight than the limit and the ready concurrent scenarios allow.
struct Unfilled {
    after_event: usize,
    in_flight: usize,
    ready: usize,
    want: usize,
    q_events: usize,
    /// A retried scenario whose known delay cannot have elapsed at that point.
    retry_waiting: Option<String>,
}

fn first_unfilled(a: &Analysis<'_>, only_while_retry_waits: bool) -> Option<Unfilled> {
    let evs = &a.h.events;
    let limit = a.plan.cfg.limit();
    // work conservation at the first quiescent point after each completion
    let serial_names: BTreeSet<&String> = a.st.scenarios.values().filter(|s| s.serial).map(|s| &s.name).collect();
    let tripped_at = if a.plan.cfg.fail_fast() {
        a.first_final_failure.or_else(|| evs.iter().position(|e| matches!(e.k, K::ParseError(_))))
    } else {
        None
    };
    // delivery time of each scenario (first attempt) by feature
    let mut delivered_at: BTreeMap<usize, u64> = BTreeMap::new();
    for (i, t, is_err) in &a.h.parser.delivered {
        if *is_err {
            continue;
        }
        if let ParserItemKind::Feature(fi) = &a.plan.items[*i].kind {
            delivered_at.insert(*fi, *t);
        }
    }
    let mut checked_after: BTreeSet<usize> = BTreeSet::new();
    for (fi, e) in evs.iter().enumerate() {
        if !matches!(e.k, K::ScFinished) {
            continue;
        }
        if tripped_at.is_some_and(|t| fi >= t) {
            break;
        }
        // first quiescent point that has seen this event
        let Some(q) = a.h.quiescent.iter().find(|q| q.events > fi) else { continue };
        if !checked_after.insert(q.events) {
            continue;
        }
        if tripped_at.is_some_and(|t| q.events > t) {
            continue;
        }
        let upto = &evs[..q.events];
        let started_keys: BTreeSet<_> = upto.iter().filter(|e| matches!(e.k, K::ScStarted)).filter_map(Ev::attempt_key).collect();
        let finished_keys: BTreeSet<_> = upto.iter().filter(|e| matches!(e.k, K::ScFinished)).filter_map(Ev::attempt_key).collect();
        let in_flight = started_keys.len() - finished_keys.len().min(started_keys.len());
        // serial anywhere near? then the property's "more concurrent scenarios are ready" clause is moot
        let serial_in_flight = upto
            .iter()
            .filter(|e| matches!(e.k, K::ScStarted))
            .filter(|e| !finished_keys.contains(&e.attempt_key().unwrap()))
            .any(|e| e.scenario.as_ref().is_some_and(|s| serial_names.contains(s)));
        if serial_in_flight {
            continue;
        }
        let t_fin = e.at;
        let started_names: BTreeSet<&str> = upto.iter().filter(|e| matches!(e.k, K::ScStarted)).filter_map(|e| e.scenario.as_deref()).collect();
        let mut ready = 0usize;
        let mut serial_ready = false;
        // (per delivered feature, by its own scenario list: a feature handed over twice shares its scenarios' names
        // with its twin, and the two copies arrive at different times)
        let per_feature = delivered_at.iter().flat_map(|(fi, d)| a.st.feature_scenarios.get(fi).into_iter().flatten().map(move |n| (n, d)));
        for (name, d) in per_feature {
            let Some(sc) = a.st.scenarios.get(name) else { continue };
            if a.twin_names.contains(name) {
                // which copy has started cannot be told by name: a serial one that was handed over may be waiting,
                // a concurrent one is never counted as ready
                if sc.serial && *d <= q.clock {
                    serial_ready = true;
                }
                continue;
            }
            if started_names.contains(sc.name.as_str()) {
                continue;
            }
            if sc.serial {
                // A serial scenario that was handed over at any time before this quiescent point
                // may have been seen by the runner's `get()`: then it rightly starts nothing else.
                if *d <= q.clock {
                    serial_ready = true;
                }
            } else if *d < t_fin {
                ready += 1;
            }
        }
        let mut retry_waiting: Option<String> = None;
        // retries waiting: conservative — only those whose delay is known (none, or one that has certainly elapsed)
        for ((name, _), idxs) in &a.by_scenario {
            let sc = &a.st.scenarios[name];
            let Some(last) = idxs.iter().map(|i| &a.attempts[*i]).filter(|t| t.finished.is_some_and(|f| f < q.events)).last() else { continue };
            let next_started = idxs.iter().map(|i| &a.attempts[*i]).any(|t| t.current() == last.current() + 1 && t.started.is_some_and(|s| s < q.events));
            if last.failed(evs) && last.left() > 0 && !next_started {
                let fin_at = evs[last.finished.unwrap()].at;
                let zero_delay = matches!(sc.known_delay, Some(None));
                if matches!(sc.known_delay, Some(Some(d)) if q.clock < fin_at.saturating_add(d)) {
                    retry_waiting = Some(name.clone());
                }
                if sc.serial {
                    // A serial retry that is owed suspends the clause - unless its delay is known and
                    // cannot have elapsed by this quiescent point (deadline >= finish stamp + delay):
                    // then the runner must not hold concurrent scenarios back for it.
                    let certainly_waiting = matches!(sc.known_delay, Some(Some(d)) if q.clock < fin_at.saturating_add(d));
                    if !certainly_waiting {
                        serial_ready = true;
                    }
                } else if fin_at < t_fin
                    && (zero_delay
                        // a known delay that had certainly elapsed when the completing scenario finished: the
                        // deadline is stamped right after the failed attempt's Finished event (no yield in
                        // between), so it lies within a few clock reads of `fin_at + d`
                        || matches!(sc.known_delay, Some(Some(d)) if fin_at.saturating_add(d).saturating_add(RETRY_READY_MARGIN_NS) < t_fin))
                {
                    ready += 1;
                }
            }
        }
        if serial_ready {
            continue;
        }
        let want = limit.map_or(in_flight + ready, |l| l.min(in_flight + ready));
        if in_flight < want && (!only_while_retry_waits || retry_waiting.is_some()) {
            return Some(Unfilled { after_event: fi, in_flight, ready, want, q_events: q.events, retry_waiting });
        }
    }
    None
}

/// Slack granted between "failed attempt's Finished stamp + delay" and the retry being ready (the
/// simulated clock advances 1 ns per read; the deadline is stamped a few reads after the event).
const RETRY_READY_MARGIN_NS: u64 = 10_000;

// ---------------------------------------------------------------------------------------------
// C06 — concurrency limit

pub fn c06(a: &Analysis<'_>, out: &mut Vec<Violation>) {
    let evs = &a.h.events;
    let limit = a.plan.cfg.limit();
    // safety on every prefix
    let mut running = 0usize;
    let mut max_running = 0usize;
    for (i, e) in evs.iter().enumerate() {
        match e.k {
            K::ScStarted => {
                running += 1;
                max_running = max_running.max(running);
                if limit.is_some_and(|l| running > l) {
                    out.push(v("C06", "limit-exceeded", format!("{running} attempts in flight at event {i}, limit {limit:?}")).attr("limit", limit.unwrap_or(0).min(5)));
                    break;
                }
            }
            K::ScFinished => running = running.saturating_sub(1),
            _ => {}
        }
    }
    // user code in progress: sweep over callback intervals
    let mut points: Vec<(u64, i32)> = Vec::new();
    for c in &a.h.cb {
        if let Some(x) = c.exit {
            points.push((c.enter, 1));
            points.push((x, -1));
        }
    }
    points.sort();
    let mut cur = 0i32;
    for (t, d) in points {
        cur += d;
        if limit.is_some_and(|l| cur > l as i32) {
            out.push(v("C06", "user-code-limit-exceeded", format!("user code of {cur} scenarios in progress at t={t}, limit {limit:?}")));
            break;
        }
    }
    // limit 1: strictly one after another
    if limit == Some(1) {
        let mut open: Option<(usize, usize, usize, Option<(usize, usize)>)> = None;
        for (i, e) in evs.iter().enumerate() {
            let Some(key) = e.attempt_key() else { continue };
            if matches!(e.k, K::Log(_)) {
                continue;
            }
            match open {
                None => open = Some(key),
                Some(k) if k != key => {
                    out.push(v("C06", "interleaved-at-limit-1", format!("event {i} ({}) of another attempt while {k:?} is open", e.short())));
                    break;
                }
                _ => {}
            }
            if matches!(e.k, K::ScFinished) {
                open = None;
            }
        }
    }
    if !a.complete() {
        return;
    }
    if let Some(u) = first_unfilled(a, false) {
        out.push(
            v(
                "C06",
                "slots-not-filled",
                format!(
                    "after completion at event {}: {} in flight, {} concurrent scenarios ready, limit {limit:?} -> expected {} in flight at the next quiescent point (event count {})",
                    u.after_event, u.in_flight, u.ready, u.want, u.q_events
                ),
            )
            .attr("limit", limit.map_or("none".to_string(), |l| l.min(5).to_string())),
        );
    }
    let _ = max_running;
}

// ---------------------------------------------------------------------------------------------
// C07 — @serial isolation

pub fn c07(a: &Analysis<'_>, out: &mut Vec<Violation>) {
    let evs = &a.h.events;
    for at in &a.attempts {
        let Some(sc) = a.st.scenarios.get(&at.scenario) else { continue };
        if !sc.serial {
            continue;
        }
        let (Some(s), Some(f)) = (at.started, at.finished) else { continue };
        // what was in flight when it started?
        let mut open: BTreeSet<_> = BTreeSet::new();
        for e in &evs[..s] {
            match e.k {
                K::ScStarted => {
                    open.insert(e.attempt_key().unwrap());
                }
                K::ScFinished => {
                    open.remove(&e.attempt_key().unwrap());
                }
                _ => {}
            }
        }
        if !open.is_empty() {
            let cause = if at.current() > 0 {
                "retry"
            } else {
                // late feature?
                "first-attempt"
            };
            out.push(
                v(
                    "C07",
                    "serial-dispatched-while-others-running",
                    format!("serial attempt {} {:?} started at event {s} while {} other attempt(s) were in flight: {:?}", at.scenario, at.retries, open.len(), open),
                )
                .attr("cause", cause),
            );
            continue;
        }
        if let Some((i, e)) = evs[s + 1..f].iter().enumerate().find(|(_, e)| e.attempt_key().is_some_and(|k| k != at.key)) {
            out.push(v(
                "C07",
                "other-dispatched-while-serial-running",
                format!("event {} ({}) of another attempt between Started@{s} and Finished@{f} of serial {} {:?}", s + 1 + i, e.short(), at.scenario, at.retries),
            ));
            continue;
        }
        // user code of others inside the window
        let (ts, tf) = (evs[s].at, evs[f].at);
        let own_sites: BTreeSet<String> = sc.steps.iter().map(|(t, _, _)| crate::plan::site_step(t)).collect();
        for c in &a.h.cb {
            let inside = (c.enter > ts && c.enter < tf) || c.exit.is_some_and(|x| x > ts && x < tf) || (c.enter < ts && c.exit.is_none_or(|x| x > tf));
            if !inside {
                continue;
            }
            let mine = match c.kind {
                CbKind::WorldNew => true, // cannot be attributed; covered by event check above
                CbKind::Before | CbKind::After => c.scenario.as_deref() == Some(at.scenario.as_str()),
                CbKind::Step => own_sites.contains(&c.site),
            };
            if !mine {
                out.push(v("C07", "foreign-user-code-during-serial", format!("callback {} [{}..{:?}] ran inside serial window [{ts}..{tf}] of {}", c.site, c.enter, c.exit, at.scenario)));
                break;
            }
        }
    }
}

// ---------------------------------------------------------------------------------------------
// C08 — fail-fast

pub fn c08(a: &Analysis<'_>, out: &mut Vec<Violation>) {
    if !a.plan.cfg.fail_fast() {
        return;
    }
    let evs = &a.h.events;
    // "every attempt already started still runs to its Finished ... and the run ends with run-Finished": a run
    // that hangs once fail-fast has tripped (termination in general is C04's) breaks exactly this clause
    if !a.complete() {
        let tripped = a.first_final_failure.is_some() || evs.iter().any(|e| matches!(e.k, K::ParseError(_)));
        if tripped && matches!(a.h.end, crate::core::RunEnd::Deadlock | crate::core::RunEnd::Livelock | crate::core::RunEnd::PollCap | crate::core::RunEnd::IdleSpin) {
            let open = a.attempts.iter().filter(|t| t.started.is_some() && t.finished.is_none()).count();
            out.push(
                v("C08", "run-not-finished-after-trip", format!("fail-fast has tripped and the run never ended ({:?}): {open} started attempt(s) without Finished, no run-Finished", a.h.end))
                    .attr("end", format!("{:?}", a.h.end)),
            );
        }
        return;
    }
    let limit = a.plan.cfg.limit();
    if let Some(p) = a.first_final_failure {
        let late: Vec<usize> = evs.iter().enumerate().skip(p + 1).filter(|(_, e)| matches!(e.k, K::ScStarted)).map(|(i, _)| i).collect();
        // Attempts dispatched together with the failing one may still begin: they were pushed
        // before the runner could observe the failure, i.e. their Started is received before the
        // first quiescent point after P... stricter and exact: they must have been received in
        // the same root poll as P or earlier polls' leftovers -> before the next quiescent point.
        let q = a.h.quiescent.iter().find(|q| q.events > p).map_or(evs.len(), |q| q.events);
        let too_late: Vec<&usize> = late.iter().filter(|i| **i >= q).collect();
        if !too_late.is_empty() {
            out.push(
                v("C08", "dispatch-after-failure", format!("final failure finished at event {p}; attempts started at events {too_late:?} after the runner had observed it (quiescent at {q})"))
                    .attr("n", too_late.len().min(3)),
            );
        }
        if let Some(l) = limit {
            if late.len() > l.saturating_sub(1) {
                out.push(v("C08", "too-many-after-failure", format!("{} attempts started after the final failure at {p}, limit {l}", late.len())));
            }
        }
        // Exact form of "only attempts dispatched together with the failing one may still begin",
        // on the dispatch probe (hook H5): the runner hands no attempt to its executor once the
        // failing attempt's Finished event exists (that event is created before the completion
        // notice the dispatch loop trips on, and the loop does not run in between).
        let t_fail = evs[p].at;
        let after: Vec<&u64> = a.h.dispatch_times.iter().filter(|t| **t > t_fail).collect();
        if !after.is_empty() {
            out.push(
                v(
                    "C08",
                    "dispatched-after-final-failure",
                    format!("the final failure's Finished event (#{p}) was created at t={t_fail}; {} attempt(s) were handed to the executor afterwards (t={:?})", after.len(), after.iter().take(4).collect::<Vec<_>>()),
                )
                .attr("n", after.len().min(3)),
            );
        }
    }
    // a retried failure must not stop dispatch: handled by C04-style completeness when nothing failed finally
    if a.first_final_failure.is_none() && !evs.iter().any(|e| matches!(e.k, K::ParseError(_))) {
        let mut supplied = 0usize;
        for (i, _, is_err) in &a.h.parser.delivered {
            if !*is_err {
                if let ParserItemKind::Feature(fi) = &a.plan.items[*i].kind {
                    supplied += a.st.feature_counts[fi].1;
                }
            }
        }
        // (scenarios, not names: the same feature may have been handed over twice)
        let started = a.by_scenario.len();
        if started != supplied {
            out.push(v("C08", "stopped-without-final-failure", format!("fail-fast run without any final failure started {started} of {supplied} scenarios")));
        }
        for ((name, _), idxs) in &a.by_scenario {
            let last = &a.attempts[*idxs.last().unwrap()];
            if last.failed(evs) && last.left() > 0 {
                out.push(v("C08", "retry-cut-without-final-failure", format!("{name}: failed attempt {:?} with retries left was not retried though nothing failed finally", last.retries)));
            }
        }
    }
    // parser error: nothing after it is ingested
    let delivered = &a.h.parser.delivered;
    if let Some(pos) = delivered.iter().position(|(_, _, e)| *e) {
        if delivered.len() > pos + 1 {
            out.push(v("C08", "ingest-after-parser-error", format!("parser error was item #{pos}, yet {} items were pulled", delivered.len())));
        }
    }
    // closes cleanly: C03's bracket checks, restated for fail-fast runs
    let mut sub = Vec::new();
    c03(a, &mut sub);
    for mut x in sub {
        if matches!(x.code.as_str(), "bracket-count" | "bracket-order" | "run-finished" | "attempt-unfinished" | "rule-outside-feature") {
            x.prop = "C08".into();
            x.code = format!("unclean-{}", x.code);
            out.push(x);
        }
    }
}

/// Per-scenario outcome signature used by the C08 differential.
pub fn outcome_signature(a: &Analysis<'_>) -> BTreeMap<String, Vec<String>> {
    let evs = &a.h.events;
    let mut m = BTreeMap::new();
    for ((name, _), idxs) in &a.by_scenario {
        let sig: Vec<String> = idxs
            .iter()
            .map(|i| {
                let at = &a.attempts[*i];
                at.seq.iter().map(|j| evs[*j].k.tag()).collect::<Vec<_>>().join(",")
            })
            .collect();
        m.insert(name.clone(), sig);
    }
    m
}

// ---------------------------------------------------------------------------------------------
// C09 — World lifecycle and hooks

pub fn c09(a: &Analysis<'_>, out: &mut Vec<Violation>) {
    let evs = &a.h.events;
    let cb = &a.h.cb;
    // A panic of user code that escapes the runner cuts every attempt in flight short: each of them
    // began (its before hook / steps ran) and owes its after hook, which now never runs. (Termination
    // and containment themselves are C04's and C10's; here it is the hook contract that is broken.)
    if a.h.end == crate::core::RunEnd::Panicked && a.plan.after_hook {
        for at in &a.attempts {
            let Some(s) = at.started else { continue };
            if a.twin_names.contains(&at.scenario) {
                continue;
            }
            let ts = evs[s].at;
            let tf = at.finished.map(|f| evs[f].at);
            let n = cb
                .iter()
                .filter(|c| c.kind == CbKind::After && c.scenario.as_deref() == Some(at.scenario.as_str()) && c.enter > ts && tf.is_none_or(|t| c.enter < t))
                .count();
            // (another attempt of the same scenario cannot be in progress at the same time)
            if n == 0 {
                out.push(
                    v("C09", "after-hook-count", format!("attempt {} {:?} began, a panic escaped the runner ({:?}) and its after hook never ran", at.scenario, at.retries, a.h.escaped_panic))
                        .attr("n", 0)
                        .attr("cause", "escaped-panic"),
                );
                break;
            }
        }
        return;
    }
    if !a.complete() {
        return;
    }
    // (i) every callback sees counter == len(trail)
    for c in cb {
        if let Some((counter, trail)) = c.counter_on_entry {
            if counter != trail {
                out.push(v("C09", "world-state-lost", format!("callback {} on World {:?} saw counter {counter}, {trail} callbacks ran on it before", c.site, c.world)));
                break;
            }
        }
    }
    // trails per World, in order
    let mut trails: BTreeMap<u64, Vec<&CbEntry>> = BTreeMap::new();
    for c in cb {
        if c.kind != CbKind::WorldNew {
            if let Some(w) = c.world {
                trails.entry(w).or_default().push(c);
            }
        }
    }
    // expected callback sequences from the event stream's attempts
    let mut expected: Vec<(String, Vec<String>, String)> = Vec::new(); // (attempt label, sites, finished_arg)
    let mut expected_world_new = 0usize;
    for at in &a.attempts {
        let Some(sc) = a.st.scenarios.get(&at.scenario) else { continue };
        let toks = attempt_tokens(at, evs);
        let exp = expect_attempt(a.plan, sc, &toks, &a.faults);
        if exp.world_new_called {
            expected_world_new += 1;
        }
        expected.push((format!("{} {:?}", at.scenario, at.retries), exp.callbacks.clone(), exp.finished_arg.clone()));
        // (v) after hook: exactly once per attempt, with the right reason, Some(world) iff created
        // (the callback log names scenarios, not feature instances: attempts of a scenario whose feature
        // was handed over twice are covered by the multiset comparison of World trails below only)
        if a.plan.after_hook && !a.twin_names.contains(&at.scenario) {
            let (Some(s), Some(f)) = (at.started, at.finished) else { continue };
            let (ts, tf) = (evs[s].at, evs[f].at);
            let afters: Vec<&CbEntry> = cb
                .iter()
                .filter(|c| c.kind == CbKind::After && c.scenario.as_deref() == Some(at.scenario.as_str()) && c.enter > ts && c.enter < tf)
                .collect();
            if afters.len() != 1 {
                out.push(v("C09", "after-hook-count", format!("attempt {} {:?}: after hook ran {} times", at.scenario, at.retries, afters.len())).attr("n", afters.len().min(2)));
                continue;
            }
            let ah = afters[0];
            if ah.finished_arg.as_deref() != Some(exp.finished_arg.as_str()) {
                out.push(
                    v("C09", "after-hook-reason", format!("attempt {} {:?}: after hook received {:?}, the attempt's outcome is {:?}", at.scenario, at.retries, ah.finished_arg, exp.finished_arg)),
                );
            }
            if ah.world.is_some() != exp.world_created {
                out.push(v("C09", "after-hook-world", format!("attempt {} {:?}: after hook got world={:?}, world created={}", at.scenario, at.retries, ah.world, exp.world_created)));
            }
            // after the last executed step
            let last_other = cb
                .iter()
                .filter(|c| c.kind != CbKind::After && c.kind != CbKind::WorldNew && c.world.is_some() && c.world == ah.world)
                .filter_map(|c| c.exit)
                .max();
            if last_other.is_some_and(|t| t > ah.enter) {
                out.push(v("C09", "after-hook-early", format!("attempt {} {:?}: after hook entered at {} before a step/before-hook finished at {last_other:?}", at.scenario, at.retries, ah.enter)));
            }
        }
    }
    // (iii) multiset of World trails == multiset of expected callback sequences that touch a World
    let mut got: Vec<Vec<String>> = trails.values().map(|t| t.iter().map(|c| c.site.clone()).collect()).collect();
    let mut want: Vec<Vec<String>> = Vec::new();
    for (_, sites, _) in &expected {
        // the after hook is part of a World's trail only if the World exists
        let sites: Vec<String> = sites.clone();
        want.push(sites);
    }
    // attempts without a World: their expected sequence is [after?]; such callbacks have world None
    let mut want_with_world: Vec<Vec<String>> = Vec::new();
    let mut i = 0;
    for at in &a.attempts {
        let Some(sc) = a.st.scenarios.get(&at.scenario) else { continue };
        let toks = attempt_tokens(at, evs);
        let exp = expect_attempt(a.plan, sc, &toks, &a.faults);
        if exp.world_created {
            want_with_world.push(want[i].clone());
        }
        i += 1;
    }
    got.sort();
    want_with_world.sort();
    if got != want_with_world {
        let extra: Vec<&Vec<String>> = got.iter().filter(|g| !want_with_world.contains(g)).collect();
        let missing: Vec<&Vec<String>> = want_with_world.iter().filter(|w| !got.contains(w)).collect();
        out.push(v(
            "C09",
            "world-trails-mismatch",
            format!("World trails do not match the attempts of the event stream.\n trails not explained by any attempt: {extra:?}\n attempts without a matching World trail: {missing:?}"),
        ));
    }
    // (iv) World::new calls == attempts that needed one
    let world_new = cb.iter().filter(|c| c.kind == CbKind::WorldNew).count();
    if world_new != expected_world_new {
        out.push(v("C09", "world-new-count", format!("World::new called {world_new} times, {expected_world_new} attempts had a before hook or reached a matching step")));
    }
    // before hook first on a fresh World
    for t in trails.values() {
        for (k, c) in t.iter().enumerate() {
            if c.kind == CbKind::Before && k != 0 {
                out.push(v("C09", "before-hook-not-first", format!("before hook {} ran as callback #{k} of World {:?}", c.site, c.world)));
            }
        }
    }
}

// ---------------------------------------------------------------------------------------------
// C10 — panic containment

pub fn c10(a: &Analysis<'_>, out: &mut Vec<Violation>) {
    let evs = &a.h.events;
    if a.h.end == RunEnd::Panicked {
        out.push(v("C10", "panic-escaped", format!("a panic escaped the run: {:?}", a.h.escaped_panic)));
        return;
    }
    if !a.complete() {
        // "... and the run still ends with run-Finished": a run in which user code failed and which then
        // hangs (lost wake-up, spin) instead of finishing
        if matches!(a.h.end, RunEnd::Deadlock | RunEnd::Livelock | RunEnd::IdleSpin | RunEnd::PollCap) && a.h.cb.iter().any(|c| c.token.is_some()) {
            out.push(v("C10", "run-not-finished-after-failure", format!("user code failed ({} injected faults fired) and the run then ended with {:?} instead of run-Finished", a.h.cb.iter().filter(|c| c.token.is_some()).count(), a.h.end)).attr("end", format!("{:?}", a.h.end)));
        }
        return;
    }
    // every fired token appears in exactly one Failed event of the right kind
    let mut seen: BTreeMap<String, Vec<usize>> = BTreeMap::new();
    for (i, e) in evs.iter().enumerate() {
        let p = match &e.k {
            K::HookFailed(_, p, _) => Some(p),
            K::StepFailed { payload, err: crate::record::ErrK::Panic, .. } => Some(payload),
            _ => None,
        };
        if let Some(p) = p {
            match crate::record::token_of(p) {
                Some(t) => seen.entry(t).or_default().push(i),
                None => out.push(v("C10", "failure-without-cause", format!("event {i} {} carries no injected fault token", e.short()))),
            }
        }
    }
    for c in &a.h.cb {
        let Some(t) = &c.token else { continue };
        match seen.get(t).map(Vec::as_slice) {
            None | Some([]) => out.push(
                v("C10", "panic-lost", format!("fault {t} fired in {} ({:?}) but no Failed event carries it", c.site, c.outcome))
                    .attr("kind", format!("{:?}", c.kind))
                    .attr("payload", format!("{:?}", c.outcome)),
            ),
            Some([i]) => {
                let e = &evs[*i];
                let ok = match (&c.kind, &e.k) {
                    (CbKind::Before, K::HookFailed(crate::record::Hk::Before, ..)) => true,
                    (CbKind::After, K::HookFailed(crate::record::Hk::After, ..)) => true,
                    (CbKind::Step, K::StepFailed { .. }) => e.step.as_ref().is_some_and(|s| crate::plan::site_step(&s.text) == c.site),
                    (CbKind::WorldNew, K::HookFailed(crate::record::Hk::Before, ..)) => a.plan.before_hook,
                    (CbKind::WorldNew, K::StepFailed { .. }) => !a.plan.before_hook,
                    _ => false,
                };
                if !ok {
                    out.push(v("C10", "panic-misreported", format!("fault {t} fired in {} but is reported by {}", c.site, e.short())));
                }
                // payload fidelity
                let text = match &e.k {
                    K::HookFailed(_, p, _) => p.clone(),
                    K::StepFailed { payload, .. } => payload.clone(),
                    _ => String::new(),
                };
                let want = match c.outcome {
                    Outcome::PanicAny => format!("custom {t}"),
                    Outcome::Err => format!("werr {t}"),
                    _ => format!("boom {t}"),
                };
                if !text.contains(&want) {
                    out.push(v("C10", "payload-altered", format!("fault {t} ({:?}) reported with payload {text:?}", c.outcome)).attr("payload", format!("{:?}", c.outcome)));
                }
            }
            Some(many) => out.push(v("C10", "panic-duplicated", format!("fault {t} appears in {} Failed events", many.len()))),
        }
    }
    for t in seen.keys() {
        if !a.faults.by_token.contains_key(t) {
            out.push(v("C10", "unknown-token", format!("Failed event carries token {t} that no callback fired")));
        }
    }
    // the attempt still gets its after hook and Finished; stream ends with Finished
    for at in &a.attempts {
        if at.failed(evs) {
            if at.finished.is_none() {
                out.push(v("C10", "failed-attempt-unfinished", format!("failed attempt {} {:?} has no Finished", at.scenario, at.retries)));
            }
            if a.plan.after_hook && !at.seq.iter().any(|i| matches!(evs[*i].k, K::HookStarted(crate::record::Hk::After))) {
                out.push(v("C10", "failed-attempt-no-after-hook", format!("failed attempt {} {:?} has no after-hook events", at.scenario, at.retries)));
            }
        }
    }
    if !matches!(evs.last().map(|e| &e.k), Some(K::RunFinished)) {
        out.push(v("C10", "no-run-finished", "stream does not end with run-Finished".to_string()));
    }
    // attempts without injected faults match their fault-free model: that is C02 restricted to them
    for at in &a.attempts {
        let Some(sc) = a.st.scenarios.get(&at.scenario) else { continue };
        let toks = attempt_tokens(at, evs);
        if toks.is_empty() && at.finished.is_some() {
            let exp = expect_attempt(a.plan, sc, &toks, &a.faults);
            let got: Vec<X> = at.seq.iter().map(|i| project(&evs[*i])).collect();
            if got != exp.seq {
                out.push(v("C10", "unaffected-attempt-disturbed", format!("attempt {} {:?} had no injected fault but deviates from its fault-free sequence:\n got {:?}\n exp {:?}", at.scenario, at.retries, got, exp.seq)));
            }
        }
    }
    // process panic hook
    if a.h.hook_count_during > 0 {
        out.push(v("C10", "panic-hook-invoked", format!("the process panic hook ran {} time(s) while the run was in progress", a.h.hook_count_during)));
    }
    if !a.h.hook_restored {
        out.push(v("C10", "panic-hook-not-restored", "after the run the panic hook installed before it is not in place".to_string()));
    }
}

pub fn run_oracle(prop: &str, a: &Analysis<'_>) -> Vec<Violation> {
    let mut out = Vec::new();
    match prop {
        "C02" => c02(a, &mut out),
        "C03" => c03(a, &mut out),
        "C04" => c04(a, &mut out),
        "C05" => c05(a, &mut out),
        "C06" => c06(a, &mut out),
        "C07" => c07(a, &mut out),
        "C08" => c08(a, &mut out),
        "C09" => c09(a, &mut out),
        "C10" => c10(a, &mut out),
        _ => {}
    }
    out
}
