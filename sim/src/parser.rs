//! `SimParser`: a `Stream` of parser items whose readiness the simulator decides
//! (virtual delay and/or a number of self-waking `Pending`s per item), usable both
//! directly as the argument of `Runner::run` and as a `cucumber::Parser`.

use std::{
    cell::RefCell,
    future::Future,
    io,
    path::PathBuf,
    pin::Pin,
    rc::Rc,
    task::{Context, Poll},
};

use cucumber::{
    cli,
    feature::{ExpandExamplesError, Ext as _},
    gherkin, parser,
};
use futures::Stream;

use crate::{
    core::{LABEL_PARSER, SimCore, SimSleep},
    plan::{FeatureSpec, ParserItemKind, Plan},
};

/// What the parser actually handed over (observed at the seam).
#[derive(Clone, Debug, Default, serde::Serialize, serde::Deserialize)]
pub struct ParserLog {
    /// (item index, virtual time delivered, is_error)
    pub delivered: Vec<(usize, u64, bool)>,
    pub pendings_returned: u32,
    pub polls: u32,
    pub finished_at: Option<u64>,
    /// Number of polls that happened after the stream had been woken by its own timer.
    pub polled_after_own_wake: u32,
    pub own_wakes: u32,
}

pub fn build_feature(spec: &FeatureSpec) -> Result<gherkin::Feature, String> {
    let (f, _) = spec.build();
    let mut f = f.expand_examples().map_err(|e| format!("harness: expansion failed: {e}"))?;
    if spec.positionless {
        let zero = gherkin::LineCol { line: 0, col: 0 };
        let steps = |steps: &mut Vec<gherkin::Step>| steps.iter_mut().for_each(|s| s.position = zero);
        let scenario = |sc: &mut gherkin::Scenario| {
            sc.position = zero;
            sc.steps.iter_mut().for_each(|s| s.position = zero);
        };
        f.position = zero;
        if let Some(b) = &mut f.background {
            b.position = zero;
            steps(&mut b.steps);
        }
        f.scenarios.iter_mut().for_each(scenario);
        for r in &mut f.rules {
            r.position = zero;
            if let Some(b) = &mut r.background {
                b.position = zero;
                steps(&mut b.steps);
            }
            r.scenarios.iter_mut().for_each(scenario);
        }
    }
    Ok(f)
}

pub fn make_error(kind: &ParserItemKind) -> parser::Error {
    match kind {
        ParserItemKind::ErrReading(tok) => parser::Error::from(gherkin::ParseFileError::Reading {
            path: PathBuf::from(format!("/sim/{tok}.feature")),
            source: io::Error::new(io::ErrorKind::NotFound, format!("io {tok}")),
        }),
        ParserItemKind::ErrExpansion(tok) => parser::Error::from(ExpandExamplesError {
            pos: gherkin::LineCol { line: 3, col: 5 },
            name: tok.clone(),
            // every other expansion error comes without a path (a feature built in memory)
            path: (tok.bytes().map(usize::from).sum::<usize>() % 2 == 0).then(|| PathBuf::from(format!("/sim/{tok}.feature"))),
        }),
        ParserItemKind::Feature(_) => unreachable!(),
    }
}

enum State {
    Idle,
    Sleeping(SimSleep),
    Pendings(u32),
}

/// What the stream needs to build one item when its turn comes.
enum Src {
    Feature { idx: usize, spec: FeatureSpec },
    Error(ParserItemKind),
}

pub struct SimParserStream {
    core: Rc<SimCore>,
    /// Items still to come (last first). Features are BUILT WHEN THEY ARE DELIVERED, not up front: as with a
    /// parser reading file after file, the gherkin values of a late feature are allocated after those of
    /// earlier, finished features have been freed (and may get their addresses).
    items: Vec<(Src, u64, u32)>,
    filter: Option<(Vec<(usize, usize)>, Option<String>)>,
    next: usize,
    state: State,
    pub log: Rc<RefCell<ParserLog>>,
}

fn build_item(src: &Src, filter: Option<&(Vec<(usize, usize)>, Option<String>)>) -> Result<parser::Result<gherkin::Feature>, String> {
    Ok(match src {
        Src::Feature { idx, spec } => {
            let mut f = build_feature(spec)?;
            if let Some((filtered_rules, tags_filter)) = filter {
                for (fi, ri) in filtered_rules {
                    if fi == idx {
                        if let Some(r) = f.rules.get_mut(*ri) {
                            r.scenarios.clear();
                        }
                    }
                }
                if let Some(expr) = tags_filter {
                    // what `filter_run` does with `--tags`: scenario, rule and feature tags together
                    let ftags = f.tags.clone();
                    let keep = |sc: &gherkin::Scenario, rtags: &[String]| {
                        let all: Vec<String> = sc.tags.iter().chain(rtags).chain(&ftags).cloned().collect();
                        crate::plan::eval_tag_expr(expr, &all)
                    };
                    f.scenarios.retain(|sc| keep(sc, &[]));
                    for r in &mut f.rules {
                        let rtags = r.tags.clone();
                        r.scenarios.retain(|sc| keep(sc, &rtags));
                    }
                }
            }
            Ok(f)
        }
        Src::Error(k) => Err(make_error(k)),
    })
}

impl SimParserStream {
    /// The parser of world A: what `Cucumber::filter_run` would hand to the runner, i.e. with the
    /// scenarios of the plan's filtered rules removed (the rules stay, empty).
    pub fn new(core: &Rc<SimCore>, plan: &Plan) -> Result<Self, String> {
        Self::build(core, plan, true)
    }

    /// The parser of world P: unfiltered, `Cucumber::filter_run` gets the filter as a closure.
    pub fn new_unfiltered(core: &Rc<SimCore>, plan: &Plan) -> Result<Self, String> {
        Self::build(core, plan, false)
    }

    fn build(core: &Rc<SimCore>, plan: &Plan, apply_filter: bool) -> Result<Self, String> {
        let filter = apply_filter.then(|| (plan.filtered_rules.clone(), plan.cfg.tags_filter.clone()));
        let mut items = Vec::new();
        for it in &plan.items {
            let src = match &it.kind {
                ParserItemKind::Feature(i) => {
                    let spec = plan.features.get(*i).ok_or("harness: bad feature index")?;
                    Src::Feature { idx: *i, spec: spec.clone() }
                }
                k => Src::Error(k.clone()),
            };
            // (built once here to find a harness mistake before the run, and dropped again)
            drop(build_item(&src, filter.as_ref())?);
            items.push((src, it.delay_ns, it.pendings));
        }
        items.reverse();
        Ok(Self {
            core: Rc::clone(core),
            items,
            filter,
            next: 0,
            state: State::Idle,
            log: Rc::new(RefCell::new(ParserLog::default())),
        })
    }
}

impl Stream for SimParserStream {
    type Item = parser::Result<gherkin::Feature>;

    fn poll_next(mut self: Pin<&mut Self>, cx: &mut Context<'_>) -> Poll<Option<Self::Item>> {
        let this = &mut *self;
        this.log.borrow_mut().polls += 1;
        loop {
            match &mut this.state {
                State::Idle => {
                    let Some((_, delay, pend)) = this.items.last() else {
                        let mut l = this.log.borrow_mut();
                        if l.finished_at.is_none() {
                            l.finished_at = Some(this.core.peek_ns());
                            this.core.progress();
                        }
                        return Poll::Ready(None);
                    };
                    if *delay > 0 {
                        this.state = State::Sleeping(this.core.sleep(*delay, LABEL_PARSER));
                    } else {
                        this.state = State::Pendings(*pend);
                    }
                }
                State::Sleeping(s) => match Pin::new(s).poll(cx) {
                    Poll::Pending => {
                        this.log.borrow_mut().pendings_returned += 1;
                        return Poll::Pending;
                    }
                    Poll::Ready(()) => {
                        let pend = this.items.last().map_or(0, |x| x.2);
                        this.state = State::Pendings(pend);
                    }
                },
                State::Pendings(n) => {
                    if *n > 0 {
                        *n -= 1;
                        this.log.borrow_mut().pendings_returned += 1;
                        this.core.progress();
                        cx.waker().wake_by_ref();
                        return Poll::Pending;
                    }
                    let (src, _, _) = this.items.pop().expect("checked");
                    let item = build_item(&src, this.filter.as_ref()).expect("built once before the run");
                    let idx = this.next;
                    this.next += 1;
                    this.state = State::Idle;
                    this.core.progress();
                    this.log.borrow_mut().delivered.push((idx, this.core.peek_ns(), item.is_err()));
                    return Poll::Ready(Some(item));
                }
            }
        }
    }
}

/// `cucumber::Parser` facade for world B.
pub struct SimParser(pub SimParserStream);

impl cucumber::Parser<()> for SimParser {
    type Cli = cli::Empty;
    type Output = SimParserStream;

    fn parse(self, (): (), _: cli::Empty) -> SimParserStream {
        self.0
    }
}
